package hcv

import (
	"fmt"
	"go/token"
	"go/types"
	"sort"
	"strings"

	"golang.org/x/tools/go/ssa"
)

func init() {
	register(&Property{
		ID:    "C12",
		Title: "Equivalent spellings of Cache-Control behave identically",
		Decides: "directive names are case-folded before they become keys of the directive map (or compared case-insensitively at every lookup); Cache-Control is read through " +
			"all field lines on both the request and the response side; the string handed to the delta-seconds decoder passed the quoted-string decoder; delta-seconds saturate; " +
			"the list splitter trims every element and never yields an empty one; request and response directives go through the same tokenizer.",
		NotDecided: "full grammar equivalence of the splitter for every input (decided: escape state before quote/comma, escape only inside quotes, no early exit, first occurrence / bare form of repeated directives); malformed fields (unbalanced quotes, blanks around `=`).",
		Rules: []Rule{
			{ID: "C12.1", Desc: "directive names are case-folded", Run: ruleC12_1, MinSites: 1},
			{ID: "C12.2", Desc: "Cache-Control read through all field lines", Run: func(c *Ctx) { ruleRLIST(c, "C12.2", "Cache-Control") }, MinSites: 1},
			{ID: "C12.3", Desc: "quoted delta-seconds arguments are decoded", Run: ruleC12_3, MinSites: 1},
			{ID: "C12.4", Desc: "delta-seconds saturation", Run: func(c *Ctx) { ruleSaturation(c, "C12.4") }, MinSites: 2},
			{ID: "C12.5", Desc: "empty elements skipped, optional whitespace trimmed", Run: ruleC12_5, MinSites: 2},
			{ID: "C12.6", Desc: "one tokenizer for request and response directives", Run: ruleC12_6, MinSites: 1},
			{ID: "C12.9", Desc: "a field of a 304 that is split over several lines is merged with all of its lines", Run: func(c *Ctx) { ruleMergeFilter(c, "C12.9") }, MinSites: 1},
			{ID: "C12.11", Desc: "of a repeated directive the first occurrence is used (the collector does not overwrite)", Run: ruleC12_11, MinSites: 1},
			{ID: "C12.12", Desc: "a field list counts as present only if it has a member (a list of empty elements is the bare directive)", Run: ruleC12_12, MinSites: 1},
			{ID: "C12.10", Desc: "an accessor that reports a directive as present hands out its argument in either spelling (token or quoted-string)", Run: ruleC12_10, MinSites: 1},
			{ID: "C12.8", Desc: "saturated delta-seconds stay saturated in later sums", Run: func(c *Ctx) { ruleDurationSums(c, "C12.8") }, MinSites: 2},
			{ID: "C12.7", Desc: "in the list splitter an escaped character is consumed before quotes and commas are interpreted", Run: ruleC12_7, MinSites: 1},
			{ID: "C12.13", Desc: "a backslash outside a quoted-string escapes nothing", Run: func(c *Ctx) { ruleEscapeOnlyInQuotes(c, "C12.13") }, MinSites: 1},
			{ID: "C12.14", Desc: "directive maps are read through the accessors only", Run: func(c *Ctx) { ruleDirectiveMapsThroughAccessors(c, "C12.14") }, MinSites: 1},
			{ID: "C12.15", Desc: "a quoted-pair stands for the escaped octet", Run: func(c *Ctx) { ruleQuotedPair(c, "C12.15") }, MinSites: 1},
			{ID: "C12.16", Desc: "the directive collector visits every pair of the field", Run: func(c *Ctx) { ruleCollectorVisitsEveryPair(c, "C12.16") }, MinSites: 1},
			{ID: "C12.17", Desc: "fields nominated by a qualified no-cache are removed by their canonical names on every path (set-cookie, SET-COOKIE)", Run: func(c *Ctx) { ruleC02_4(c); renameRule(c, "C02.4", "C12.17") }, MinSites: 1},
			{ID: "C12.18", Desc: "a signed number is not delta-seconds", Run: func(c *Ctx) { ruleDeltaSecondsUnsigned(c, "C12.18") }, MinSites: 1},
			{ID: "C12.19", Desc: "HTAB is optional whitespace like SP", Run: func(c *Ctx) { ruleListTrimOWS(c, "C12.19") }, MinSites: 1},
			{ID: "C12.20", Desc: "the scanner yields a directive whatever its argument", Run: func(c *Ctx) { ruleScannerYieldsWhateverTheArgument(c, "C12.20") }, MinSites: 1},
			{ID: "C12.21", Desc: "an out-of-range number acts as the greatest representable value", Run: func(c *Ctx) { ruleOverflowSaturatesAtTheBound(c, "C12.21") }, MinSites: 1},
			{ID: "C12.22", Desc: "empty list elements are ignored where a request Cache-Control selects a variant", Run: func(c *Ctx) { ruleListValuesThroughTheSplitter(c, "C12.22") }, MinSites: 1},
			{ID: "C12.23", Desc: "a delta-seconds value parsed as unsigned is bounded before it is converted to a signed type (2^63 and above do not wrap)", Run: func(c *Ctx) { ruleUnsignedParseClampedBeforeConversion(c, "C12.23") }, MinSites: 1},
		},
	})
}

// tokenizerTree: functions reachable from both parse functions (the shared tokenizer and splitter).
func (c *Ctx) tokenizerTree() []*ssa.Function {
	// static calls and lexically nested closures only: dynamic resolution of `yield` would drag in the loop bodies of
	// every other user of the shared list splitter
	tree := func(root *ssa.Function) map[*ssa.Function]bool {
		seen := map[*ssa.Function]bool{}
		var rec func(f *ssa.Function)
		rec = func(f *ssa.Function) {
			if f == nil || seen[f] || !c.P.IsRepoFunc(f) || len(f.Blocks) == 0 {
				return
			}
			seen[f] = true
			instrsOf(f, func(in ssa.Instruction) {
				if cc := callOf(in); cc != nil {
					rec(cc.StaticCallee())
				}
				if mc, ok := in.(*ssa.MakeClosure); ok {
					rec(mc.Fn.(*ssa.Function))
				}
				for _, op := range in.Operands(nil) {
					if af, ok := (*op).(*ssa.Function); ok && af.Parent() != nil {
						rec(af)
					}
				}
			})
		}
		rec(root)
		return seen
	}
	a := tree(c.A.F("parseReq"))
	var out []*ssa.Function
	for f := range tree(c.A.F("parseResp")) {
		if a[f] && f != c.A.F("parseReq") && f != c.A.F("parseResp") {
			out = append(out, f)
		}
	}
	sort.Slice(out, func(i, j int) bool { return FuncName(out[i]) < FuncName(out[j]) })
	return out
}

func isCaseFold(c *ssa.CallCommon) bool {
	return callIsPkgFunc(c, "strings", "ToLower") || callIsPkgFunc(c, "strings", "ToUpper") || callIsPkgFunc(c, "net/http", "CanonicalHeaderKey") ||
		callIsPkgFunc(c, "net/textproto", "CanonicalMIMEHeaderKey") || callIsPkgFunc(c, "bytes", "ToLower") || callIsPkgFunc(c, "strings", "ToLowerSpecial")
}

// passesThrough: every backward path from v to a "raw" source (string parameter, header read) passes a call accepted by cut.
// Returns (true, "") when v is fully covered; otherwise a description of an uncovered source.
func (an *Analysis) passesThrough(v ssa.Value, cut func(c *ssa.CallCommon) bool, inTree map[*ssa.Function]bool) (bool, string) {
	uncovered := ""
	an.P.TraceBack(v, TraceOpts{ThroughOps: true, ThroughExtern: true, NoHeapFields: true}, func(x ssa.Value, _ []int) bool {
		if uncovered != "" {
			return false
		}
		switch y := x.(type) {
		case *ssa.Call:
			if cut(&y.Call) {
				return false
			}
			if callIsMethod(&y.Call, "net/http", "Header", "Get") || callIsMethod(&y.Call, "net/http", "Header", "Values") {
				uncovered = "header value read at " + an.P.InstrPos(y)
				return false
			}
		case *ssa.Parameter:
			if isStringType(y.Type()) && (inTree == nil || !inTree[y.Parent()] || len(an.P.Callers(y.Parent())) == 0) {
				uncovered = "raw string parameter " + y.Name() + " of " + an.P.ShortName(y.Parent())
				return false
			}
		case *ssa.Lookup:
			if isHTTPHeader(y.X.Type()) {
				uncovered = "header map read at " + an.P.InstrPos(y)
				return false
			}
		}
		return true
	})
	return uncovered == "", uncovered
}

func ruleC12_1(c *Ctx) {
	if !c.Need("C12.1", "parseReq", "parseResp") {
		return
	}
	tree := c.tokenizerTree()
	inTree := map[*ssa.Function]bool{}
	for _, f := range tree {
		inTree[f] = true
	}
	// key sources: first argument of yield calls in Seq2[string,string] iterator closures; MapUpdate keys on map[string]string
	type src struct {
		v     ssa.Value
		where string
	}
	var keys []src
	for _, f := range tree {
		// iterator closure of a Seq2[string,string]: func(yield func(string,string) bool)
		if len(f.Params) == 1 {
			if sig, ok := f.Params[0].Type().Underlying().(*types.Signature); ok && sig.Params().Len() == 2 && isStringType(sig.Params().At(0).Type()) && isStringType(sig.Params().At(1).Type()) {
				yp := f.Params[0]
				instrsOf(f, func(in ssa.Instruction) {
					if call := callOf(in); call != nil && call.Value == yp && len(call.Args) == 2 {
						keys = append(keys, src{call.Args[0], c.P.ShortName(f) + "@" + c.P.InstrPos(in) + " yield(key, _)"})
					}
				})
				// yield captured through nested closures
				for _, g := range c.reachableFrom(f) {
					if g == f || !lexicallyInside(g, f) {
						continue
					}
					instrsOf(g, func(in ssa.Instruction) {
						call := callOf(in)
						if call == nil || len(call.Args) != 2 {
							return
						}
						if fv, ok := call.Value.(*ssa.FreeVar); ok {
							for _, b := range c.P.freeVarBindings(fv) {
								if b == yp {
									keys = append(keys, src{call.Args[0], c.P.ShortName(g) + "@" + c.P.InstrPos(in) + " yield(key, _)"})
								}
							}
						}
						if u, ok := call.Value.(*ssa.UnOp); ok {
							if fv, ok := u.X.(*ssa.FreeVar); ok {
								_ = fv
								keys = append(keys, src{call.Args[0], c.P.ShortName(g) + "@" + c.P.InstrPos(in) + " yield(key, _)"})
							}
						}
					})
				}
			}
		}
		instrsOf(f, func(in ssa.Instruction) {
			if mu, ok := in.(*ssa.MapUpdate); ok {
				if mt, ok := mu.Map.Type().Underlying().(*types.Map); ok && isStringType(mt.Key()) && isStringType(mt.Elem()) {
					keys = append(keys, src{mu.Key, c.P.ShortName(f) + "@" + c.P.InstrPos(in) + " map[key]=_"})
				}
			}
		})
	}
	desc := "a directive name is case-folded before it becomes a key of the directive map"
	if len(keys) == 0 {
		c.Undecided("C12.1", "directive-case", desc, "no place where a directive name becomes a map key was found in the shared tokenizer")
		return
	}
	// alternative: every lookup compares case-insensitively (not the case when lookups are map index expressions)
	var ex []string
	bad := ""
	for _, k := range keys {
		ex = append(ex, k.where)
		if ok, why := c.An.passesThrough(k.v, isCaseFold, inTree); !ok {
			bad = k.where + ": " + why + " reaches the key without a case-folding call"
		}
	}
	if bad != "" {
		c.Fail("C12.1", "directive-case", desc, bad+"; `Cache-Control: No-Store` is not recognised and the response is stored", ex...)
		return
	}
	c.Pass("C12.1", "directive-case", desc, ex...)
}

// unquoteFn: the quoted-string decoder: func(string) string in internal whose call tree tests for the DQUOTE byte.
func (c *Ctx) unquoteFns() map[*ssa.Function]bool {
	out := map[*ssa.Function]bool{}
	ip := c.P.Pkg("internal")
	if ip == nil {
		return out
	}
	for _, m := range ip.Members {
		fn, ok := m.(*ssa.Function)
		if !ok || len(fn.Blocks) == 0 {
			continue
		}
		ps, rs := sigParams(fn), sigResults(fn)
		if len(ps) != 1 || !isBasicKind(ps[0], types.String) || len(rs) < 1 || !isBasicKind(rs[0], types.String) {
			continue
		}
		hasQuote, hasBackslash := false, false
		for _, g := range c.reachableFrom(fn) {
			if intConstsIn(g)['"'] {
				hasQuote = true
			}
			if intConstsIn(g)['\\'] {
				hasBackslash = true
			}
		}
		if hasQuote && hasBackslash {
			out[fn] = true
		}
	}
	return out
}

func ruleC12_3(c *Ctx) {
	unq := c.unquoteFns()
	if len(unq) == 0 {
		c.Undecided("C12.3", "quoted-delta", "a quoted-string decoder exists", "no func(string) string handling DQUOTE in the internal package")
		return
	}
	isUnq := func(cc *ssa.CallCommon) bool { return unq[cc.StaticCallee()] }
	// decoder: raw Value() that parses an integer
	var dec *ssa.Function
	for fn := range c.A.RawValue {
		for g := range c.P.StaticTree(fn) { // (the number may be parsed in a helper of the decoder)
			if callsWhere(g, func(cc *ssa.CallCommon) bool {
				return callIsPkgFunc(cc, "strconv", "ParseInt") || callIsPkgFunc(cc, "strconv", "Atoi") || callIsPkgFunc(cc, "strconv", "ParseUint")
			}) {
				dec = fn
			}
		}
	}
	if dec == nil {
		c.Undecided("C12.3", "quoted-delta", "delta-seconds decoder exists", "not found")
		return
	}
	// shape B: the decoder itself unquotes its receiver
	if callsWhere(dec, isUnq) {
		c.Pass("C12.3", "quoted-delta", "the delta-seconds decoder decodes a quoted-string argument itself", c.P.ShortName(dec))
		return
	}
	// shape C: the tokenizer unquotes every value it yields
	tokOK := false
	for _, f := range c.tokenizerTree() {
		if callsWhere(f, isUnq) {
			tokOK = true
		}
	}
	// shape A: every call of the decoder whose receiver is a directive-map value passes the unquoter
	n := 0
	bad := ""
	var sites []string
	for _, fn := range c.P.RepoFuncs {
		if isTestOnly(c, fn) {
			continue
		}
		instrsOf(fn, func(in ssa.Instruction) {
			call := callOf(in)
			if call == nil || call.StaticCallee() != dec || len(call.Args) != 1 {
				return
			}
			// only sites fed by a directive map lookup
			fed := false
			c.P.TraceBack(call.Args[0], TraceOpts{ThroughOps: true, NoHeapFields: true}, func(v ssa.Value, _ []int) bool {
				if lk, ok := v.(*ssa.Lookup); ok {
					if mt, ok := lk.X.Type().Underlying().(*types.Map); ok && isStringType(mt.Key()) && isStringType(mt.Elem()) {
						fed = true
					}
				}
				return !fed
			})
			if !fed {
				return
			}
			n++
			where := c.P.ShortName(fn) + "@" + c.P.InstrPos(in)
			sites = append(sites, where)
			covered := true
			c.P.TraceBack(call.Args[0], TraceOpts{ThroughOps: true, ThroughExtern: true, NoHeapFields: true}, func(v ssa.Value, _ []int) bool {
				if cc, ok := v.(*ssa.Call); ok && isUnq(&cc.Call) {
					return false
				}
				if lk, ok := v.(*ssa.Lookup); ok {
					if mt, ok := lk.X.Type().Underlying().(*types.Map); ok && isStringType(mt.Key()) && isStringType(mt.Elem()) {
						covered = false
						return false
					}
				}
				return true
			})
			if !covered && !tokOK {
				bad = where + ": the raw map value reaches the delta-seconds decoder without quoted-string decoding"
			}
		})
	}
	desc := "a delta-seconds argument given as quoted-string (max-age=\"5\") is decoded like the token form"
	if n == 0 {
		c.Undecided("C12.3", "quoted-delta", desc, "no decoder call fed by a directive map found")
		return
	}
	if bad != "" {
		c.Fail("C12.3", "quoted-delta", desc, bad+"; `max-age=\"60\"` is treated as absent and a heuristic lifetime applies", sites...)
		return
	}
	c.Pass("C12.3", "quoted-delta", desc, sites...)
}

func ruleC12_5(c *Ctx) {
	// the splitter: an iterator closure (func(yield func(string) bool)) in the tokenizer tree that compares bytes with ','
	var split *ssa.Function
	for _, f := range c.tokenizerTree() {
		if len(f.Params) == 1 && intConstsIn(f)[','] {
			if sig, ok := f.Params[0].Type().Underlying().(*types.Signature); ok && sig.Params().Len() == 1 && isStringType(sig.Params().At(0).Type()) {
				split = f
			}
		}
	}
	desc := "the list splitter yields each element trimmed and never yields an empty element"
	if split == nil {
		c.Undecided("C12.5", "splitter", desc, "no list splitter (iterator comparing with ',') in the shared tokenizer")
		return
	}
	yp := split.Params[0]
	n := 0
	bad := ""
	isYield := func(v ssa.Value) bool {
		if v == ssa.Value(yp) {
			return true
		}
		if _, isSig := v.Type().Underlying().(*types.Signature); !isSig {
			return false
		}
		// the yield function captured by a local helper closure
		roots := c.P.Roots(v, TraceOpts{NoParams: true})
		return len(roots) == 1 && roots[0] == ssa.Value(yp)
	}
	var scope []*ssa.Function
	for _, g := range c.reachableFrom(split) {
		if g == split || lexicallyInside(g, split) {
			scope = append(scope, g)
		}
	}
	for _, g := range scope {
		instrsOf(g, func(in ssa.Instruction) {
			call := callOf(in)
			if call == nil || call.IsInvoke() || call.StaticCallee() != nil || !isYield(call.Value) {
				return
			}
			n++
			arg := call.Args[0]
			trimmed := c.An.dependsOnCall(arg, func(cc *ssa.Call) bool {
				return callIsPkgFunc(&cc.Call, "net/textproto", "TrimString") || callIsPkgFunc(&cc.Call, "strings", "TrimSpace") || callIsPkgFunc(&cc.Call, "strings", "Trim")
			})
			if !trimmed {
				bad = c.P.InstrPos(in) + ": yielded element is not trimmed"
				return
			}
			nonEmpty := false
			for _, dc := range dominatingConds(in.Block()) {
				b, ok := dc.cond.(*ssa.BinOp)
				if !ok {
					continue
				}
				// len(p) > 0 (true edge) / len(p) == 0 (false edge) / p != ""
				op := b.Op
				if !dc.onTrue {
					op = negTok(op)
				}
				if call, ok := b.X.(*ssa.Call); ok {
					if bi, ok := call.Call.Value.(*ssa.Builtin); ok && bi.Name() == "len" && c.An.sameCanon(call.Call.Args[0], arg) {
						if k, ok := constInt(b.Y); ok && ((op == token.GTR && k == 0) || (op == token.NEQ && k == 0) || (op == token.GEQ && k == 1)) {
							nonEmpty = true
						}
					}
				}
				if s, ok := constStr(b.Y); ok && s == "" && op == token.NEQ && c.An.sameCanon(b.X, arg) {
					nonEmpty = true
				}
			}
			if !nonEmpty {
				bad = c.P.InstrPos(in) + ": element may be empty when yielded"
			}
		})
	}
	// an empty element is skipped, it does not end the list: the iteration is left early (a return from inside the scan
	// loop) only after a yield that returned false
	var yieldCalls []ssa.Value
	for _, g := range scope {
		instrsOf(g, func(in ssa.Instruction) {
			if call := callOf(in); call != nil && !call.IsInvoke() && call.StaticCallee() == nil && isYield(call.Value) {
				if v, ok := in.(ssa.Value); ok {
					yieldCalls = append(yieldCalls, v)
				}
			}
		})
	}
	earlyExit := ""
	for _, g := range scope {
		if g != split {
			continue
		}
		for _, b := range g.Blocks {
			if _, isRet := b.Instrs[len(b.Instrs)-1].(*ssa.Return); !isRet || !leavesLoopFromBody(b) {
				continue
			}
			// every way into this return says "a yield returned false" (directly or via a local helper's result)
			stopped := false
			for _, dc := range dominatingConds(b) {
				for _, lf := range condLeaves(dc.cond, dc.onTrue) {
					if lf.val {
						continue
					}
					for _, yc := range yieldCalls {
						if lf.v == yc || c.An.canon(lf.v) == yc {
							stopped = true
						}
					}
					// result of a local closure that wraps the yield
					if call, ok := lf.v.(*ssa.Call); ok {
						for _, cal := range c.P.Callees(call) {
							if lexicallyInside(cal, split) {
								stopped = true
							}
						}
					}
				}
			}
			if !stopped {
				earlyExit = c.P.InstrPos(b.Instrs[len(b.Instrs)-1])
			}
		}
	}
	if earlyExit != "" {
		c.Fail("C12.5", "splitter-runs-to-the-end", "the list splitter stops early only when the consumer stops it", earlyExit+": the scan loop is left although no yield returned false; e.g. an empty element (`max-stale=60,, only-if-cached`) ends the list and every directive after it is lost")
	} else if n > 0 {
		c.Pass("C12.5", "splitter-runs-to-the-end", "the list splitter stops early only when the consumer stops it", c.P.ShortName(split))
	}
	if n == 0 {
		c.Undecided("C12.5", "splitter", desc, "no yield call in "+c.P.ShortName(split))
	} else if bad != "" {
		c.Fail("C12.5", "splitter", desc, bad)
	} else {
		c.Pass("C12.5", "splitter", desc, fmt.Sprintf("%s: %d yield sites", c.P.ShortName(split), n))
	}
	// the tokenizer skips a directive with an empty name and trims name and value
	tokOK := false
	for _, f := range c.tokenizerTree() {
		if callsWhere(f, func(cc *ssa.CallCommon) bool { return callIsPkgFunc(cc, "strings", "Cut") }) {
			trim := 0
			instrsOf(f, func(in ssa.Instruction) {
				if call := callOf(in); call != nil && (callIsPkgFunc(call, "net/textproto", "TrimString") || callIsPkgFunc(call, "strings", "TrimSpace")) {
					trim++
				}
			})
			if trim >= 1 {
				tokOK = true
			}
		}
	}
	if tokOK {
		c.Pass("C12.5", "tokenizer-trims", "the tokenizer splits name and argument at '=' and trims them", "shared tokenizer")
	} else {
		c.Fail("C12.5", "tokenizer-trims", "the tokenizer splits name and argument at '=' and trims them", "no strings.Cut + trim in the shared tokenizer")
	}
}

func ruleC12_6(c *Ctx) {
	if !c.Need("C12.6", "parseReq", "parseResp") {
		return
	}
	callees := func(fn *ssa.Function) []string {
		set := map[string]bool{}
		for _, g := range c.reachableFrom(fn) {
			if g != fn {
				set[c.P.ShortName(g)] = true
			}
		}
		return sortedKeys(set)
	}
	a, b := callees(c.A.F("parseReq")), callees(c.A.F("parseResp"))
	sort.Strings(a)
	sort.Strings(b)
	desc := "request and response directives are tokenised by the same function"
	if len(a) > 0 && strings.Join(a, ",") == strings.Join(b, ",") {
		c.Pass("C12.6", "one-tokenizer", desc, a...)
	} else {
		c.Fail("C12.6", "one-tokenizer", desc, fmt.Sprintf("request side calls %v, response side calls %v", a, b))
	}
	// both read the same header field
	for _, role := range []string{"parseReq", "parseResp"} {
		fn := c.A.F(role)
		reads := false
		for _, g := range c.reachableFrom(fn) {
			if headerCallWithKey(g, "Get", "Cache-Control") || headerCallWithKey(g, "Values", "Cache-Control") {
				reads = true
			}
		}
		if reads {
			c.Pass("C12.6", "reads-cache-control "+role, "the parser reads the Cache-Control field", c.P.ShortName(fn))
		} else {
			c.Fail("C12.6", "reads-cache-control "+role, "the parser reads the Cache-Control field", c.P.ShortName(fn)+": does not read Cache-Control")
		}
	}
}

func lexicallyInside(g, f *ssa.Function) bool {
	for p := g.Parent(); p != nil; p = p.Parent() {
		if p == f {
			return true
		}
	}
	return false
}

// ruleC12_7: inside a quoted-string a backslash escapes the next byte: the splitter must look at its escape state before
// it interprets a DQUOTE (toggle) or a comma (split).
func ruleC12_7(c *Ctx) {
	var split *ssa.Function
	for _, f := range c.tokenizerTree() {
		if len(f.Params) == 1 && intConstsIn(f)[','] && intConstsIn(f)['"'] {
			if sig, ok := f.Params[0].Type().Underlying().(*types.Signature); ok && sig.Params().Len() == 1 && isStringType(sig.Params().At(0).Type()) {
				split = f
			}
		}
	}
	desc := "the list splitter consumes an escaped byte before it interprets quotes and commas"
	if split == nil {
		c.Undecided("C12.7", "splitter-escape", desc, "no quote-aware list splitter found in the shared tokenizer")
		return
	}
	// the escape flag: a boolean (a loop-carried local, or a member of a local state struct) that becomes true under the
	// true edge of a comparison with a backslash
	st := splitterState(split)
	if len(st.escSites) == 0 {
		c.Fail("C12.7", "splitter-escape", desc, c.P.ShortName(split)+": no escape state: a backslash inside a quoted-string is not treated as an escape")
		return
	}
	isEsc := st.isEscRead
	n := 0
	bad := ""
	instrsOf(split, func(in ssa.Instruction) {
		bo, ok := in.(*ssa.BinOp)
		if !ok || bo.Op != token.EQL {
			return
		}
		k, ok := constInt(bo.Y)
		if !ok || (k != '"' && k != ',') {
			return
		}
		n++
		guarded := false
		for _, dc := range dominatingConds(bo.Block()) {
			if !dc.onTrue && isEsc(dc.cond) {
				guarded = true
			}
		}
		if !guarded {
			bad = fmt.Sprintf("%s: the comparison with %q is evaluated without first testing the escape state", c.P.InstrPos(bo), rune(k))
		}
	})
	if n == 0 {
		c.Undecided("C12.7", "splitter-escape", desc, "no quote/comma comparison in "+c.P.ShortName(split))
	} else if bad != "" {
		c.Fail("C12.7", "splitter-escape", desc, bad+"; an escaped quote such as ext=\"a\\\"\" ends the quoted-string early and the directives after it are lost or merged")
	} else {
		c.Pass("C12.7", "splitter-escape", desc, fmt.Sprintf("%s: %d comparisons guarded by the escape state", c.P.ShortName(split), n))
	}
}

// ruleC12_10: `no-cache=X-Secret` and `no-cache="X-Secret"` mean the same. A tuple accessor (argument, present) that
// reports present=true must hand out the argument it found: its first result depends on the map lookup on every such
// return. Returning a constant (empty) argument with present=true turns one spelling into the unqualified directive.
func ruleC12_10(c *Ctx) {
	desc := "wherever a tuple accessor returns present=true, the argument returned depends on the directive's stored value"
	n := 0
	var fns []*ssa.Function
	for fn, di := range c.A.DirAcc {
		if di.Tuple {
			fns = append(fns, fn)
		}
	}
	sort.Slice(fns, func(i, j int) bool { return FuncName(fns[i]) < FuncName(fns[j]) })
	for _, fn := range fns {
		var lookups []ssa.Value
		instrsOf(fn, func(in ssa.Instruction) {
			if lk, ok := in.(*ssa.Lookup); ok {
				lookups = append(lookups, lk)
			}
		})
		instrsOf(fn, func(in ssa.Instruction) {
			r, ok := in.(*ssa.Return)
			if !ok || len(r.Results) != 2 {
				return
			}
			okv := c.An.RetVal(r, 1)
			if b, isC := constBool(okv); !isC || !b {
				return // present is false or computed (a decoder's validity flag)
			}
			n++
			arg := c.An.RetVal(r, 0)
			dep := false
			for _, lk := range lookups {
				if c.An.dependsOnValue(arg, lk) {
					dep = true
				}
			}
			key := "present-carries-argument fn=" + c.P.ShortName(fn)
			if dep {
				c.Pass("C12.10", key, desc, c.P.InstrPos(r))
			} else {
				c.Fail("C12.10", key, desc, c.P.InstrPos(r)+": returns `"+arg.String()+"` with present=true; e.g. the token form `no-cache=X-Secret` is then handled as unqualified no-cache (validation on every request) while the quoted form is not")
			}
		})
	}
	if n == 0 {
		c.Pass("C12.10", "present-carries-argument", desc, fmt.Sprintf("%d tuple accessors, none returns a literal present=true", len(fns)))
	}
}

// ruleC12_11: `max-age=0, max-age=3600` and `no-cache, no-cache="X"`: RFC 9111 §4.2.1 asks for the first occurrence (or
// for treating the response as stale). The function that collects the tokenizer's pairs into the directive map must not
// let a later occurrence overwrite an earlier one: every map update is guarded by a failed lookup of that key, or stores
// the empty (bare, most restrictive) argument.
func ruleC12_11(c *Ctx) {
	if !c.Need("C12.11", "parseReq", "parseResp") {
		return
	}
	desc := "the directive map is filled first-occurrence-wins"
	var collectors []*ssa.Function
	for _, role := range []string{"parseReq", "parseResp"} {
		for g := range c.P.StaticTree(c.A.F(role)) {
			rs := sigResults(g)
			if len(rs) != 1 {
				continue
			}
			if mt, ok := rs[0].Underlying().(*types.Map); ok && isStringType(mt.Key()) && isStringType(mt.Elem()) && g != c.A.F(role) {
				collectors = append(collectors, g)
			}
		}
	}
	sort.Slice(collectors, func(i, j int) bool { return FuncName(collectors[i]) < FuncName(collectors[j]) })
	seen := map[*ssa.Function]bool{}
	n := 0
	for _, col := range collectors {
		if seen[col] {
			continue
		}
		seen[col] = true
		n++
		updates := 0
		inDuplicate := 0
		bad := ""
		for _, g := range c.reachableFrom(col) {
			if g != col && !lexicallyInside(g, col) {
				continue
			}
			instrsOf(g, func(in ssa.Instruction) {
				mu, ok := in.(*ssa.MapUpdate)
				if !ok {
					return
				}
				updates++
				guarded := false
				for _, dc := range dominatingConds(mu.Block()) {
					for _, lf := range condLeaves(dc.cond, dc.onTrue) {
						ex, ok := lf.v.(*ssa.Extract)
						if !ok {
							continue
						}
						if lk, ok := ex.Tuple.(*ssa.Lookup); ok && lk.CommaOk && c.An.sameCanon(lk.Index, mu.Key) {
							if lf.val {
								inDuplicate++
							} else {
								guarded = true
							}
						}
					}
				}
				if k, isC := constStr(mu.Value); isC && k == "" {
					return
				}
				if !guarded {
					bad = c.P.InstrPos(mu) + ": stores the argument whether or not the directive is already in the map"
				}
			})
		}
		key := "first-occurrence fn=" + c.P.ShortName(col)
		if updates == 0 {
			// a function that only hands on what another collector below it built is judged there
			forwards := false
			for _, g := range c.reachableFrom(col) {
				for _, other := range collectors {
					if g == other && other != col {
						forwards = true
					}
				}
			}
			if forwards {
				n--
				continue
			}
		}
		switch {
		case updates == 0:
			c.Fail("C12.11", key, desc, c.P.ShortName(col)+": the pairs are collected by a library helper (last occurrence wins); `max-age=0, max-age=3600` is fresh for an hour and `no-cache, no-cache=\"X-Foo\"` loses its unqualified no-cache")
		case bad != "":
			c.Fail("C12.11", key, desc, bad+"; `max-age=0, max-age=3600` is fresh for an hour and `no-cache, no-cache=\"X-Foo\"` loses its unqualified no-cache")
		default:
			c.Pass("C12.11", key, desc, fmt.Sprintf("%s: %d guarded update(s)", c.P.ShortName(col), updates))
		}
		// with the first occurrence kept, the order of `no-cache` and `no-cache="X-Foo"` decides the outcome unless the
		// repeated occurrence can still change the entry (the bare form wins wherever it stands)
		key2 := "repeated-bare-form fn=" + c.P.ShortName(col)
		desc2 := "a repeated directive can still replace the recorded argument (the bare form of no-cache / private wins in any order)"
		if updates > 0 && bad == "" {
			if inDuplicate == 0 {
				c.Fail("C12.11", key2, desc2, c.P.ShortName(col)+": a repeated directive is skipped altogether; `no-cache=\"X-Foo\", no-cache` keeps the qualified form and the response is reused without validation, while `no-cache, no-cache=\"X-Foo\"` is validated")
			} else {
				c.Pass("C12.11", key2, desc2, fmt.Sprintf("%s: %d update(s) in the repeated-directive branch", c.P.ShortName(col), inDuplicate))
			}
		}
	}
	if n == 0 {
		c.Undecided("C12.11", "first-occurrence", desc, "no function returning the directive map found below the parsers")
	}
}

// ruleC12_12: `no-cache=","` and `no-cache=" "` consist of empty list elements only and mean the same as `no-cache=""`.
// The decoder of comma-separated arguments (raw value -> (sequence, valid)) may report valid=true only from inside an
// iteration over the members (one exists), not from a mere length test of the raw string.
func ruleC12_12(c *Ctx) {
	desc := "the list decoder reports a list as valid only when the splitter produced a member"
	n := 0
	for fn := range c.A.RawValue {
		rs := sigResults(fn)
		if len(rs) != 2 {
			continue
		}
		if _, isSig := rs[0].Underlying().(*types.Signature); !isSig {
			continue // not a sequence decoder
		}
		n++
		bad := ""
		instrsOf(fn, func(in ssa.Instruction) {
			r, ok := in.(*ssa.Return)
			if !ok || len(r.Results) != 2 {
				return
			}
			if b, isC := constBool(r.Results[1]); isC && b && !blockInCycle(r.Block()) {
				bad = c.P.InstrPos(r)
			}
		})
		key := "list-needs-member fn=" + c.P.ShortName(fn)
		if bad != "" {
			c.Fail("C12.12", key, desc, bad+": valid=true is returned outside any iteration over the members; `no-cache=\",\"` is then a qualified no-cache naming no field: the response is reused without validation and nothing is stripped")
		} else {
			c.Pass("C12.12", key, desc, c.P.ShortName(fn))
		}
	}
	if n == 0 {
		c.Undecided("C12.12", "list-needs-member", desc, "no raw decoder returning a sequence")
	}
}

// splitterVars describes the boolean state of the list splitter: where the escape flag is set, and how reads of the
// escape flag and of other state flags look (loop-carried phis, or members of a local struct kept in memory).
type splitterVars struct {
	escPhis   map[*ssa.Phi]bool
	escFields map[[2]interface{}]bool // (alloc, field index)
	escSites  []escSite
}

type escSite struct {
	block *ssa.BasicBlock // the block from which the flag becomes true
	conds []domCond
	pos   token.Pos
	phi   *ssa.Phi
	field [2]interface{}
}

func splitterState(split *ssa.Function) *splitterVars {
	st := &splitterVars{escPhis: map[*ssa.Phi]bool{}, escFields: map[[2]interface{}]bool{}}
	isBackslashTrue := func(conds []domCond) bool {
		for _, dc := range conds {
			if dc.cond == nil {
				continue
			}
			for _, lf := range condLeaves(dc.cond, dc.onTrue) {
				if bo, ok := lf.v.(*ssa.BinOp); ok && lf.val && bo.Op == token.EQL {
					if k, ok := constInt(bo.Y); ok && k == '\\' {
						return true
					}
					if k, ok := constInt(bo.X); ok && k == '\\' {
						return true
					}
				}
			}
			if bo, ok := dc.cond.(*ssa.BinOp); ok && dc.onTrue && bo.Op == token.EQL {
				if k, ok := constInt(bo.Y); ok && k == '\\' {
					return true
				}
			}
		}
		return false
	}
	for _, fn := range append([]*ssa.Function{split}, split.AnonFuncs...) {
		instrsOf(fn, func(in ssa.Instruction) {
			switch x := in.(type) {
			case *ssa.Phi:
				if !isBoolType(x.Type()) {
					return
				}
				for i, e := range x.Edges {
					if b, isC := constBool(e); isC && b {
						pred := x.Block().Preds[i]
						conds := append(dominatingConds(pred), lastCond(pred, x.Block())...)
						if isBackslashTrue(conds) {
							st.escPhis[x] = true
							st.escSites = append(st.escSites, escSite{block: pred, conds: conds, pos: x.Pos(), phi: x})
						}
					}
				}
			case *ssa.Store:
				b, isC := constBool(x.Val)
				if !isC || !b {
					return
				}
				fa, ok := x.Addr.(*ssa.FieldAddr)
				if !ok {
					return
				}
				if _, isAlloc := fa.X.(*ssa.Alloc); !isAlloc {
					if _, isFV := fa.X.(*ssa.FreeVar); !isFV {
						return
					}
				}
				conds := dominatingConds(x.Block())
				if isBackslashTrue(conds) {
					key := [2]interface{}{fa.X, fa.Field}
					st.escFields[key] = true
					st.escSites = append(st.escSites, escSite{block: x.Block(), conds: conds, pos: x.Pos(), field: key})
				}
			}
		})
	}
	return st
}

// isEscRead: v reads the escape flag (through loop-carried phis, or as a load of the state member).
func (st *splitterVars) isEscRead(v ssa.Value) bool {
	if u, ok := v.(*ssa.UnOp); ok && u.Op == token.MUL {
		if fa, ok := u.X.(*ssa.FieldAddr); ok && st.escFields[[2]interface{}{fa.X, fa.Field}] {
			return true
		}
	}
	seen := map[ssa.Value]bool{}
	var rec func(v ssa.Value) bool
	rec = func(v ssa.Value) bool {
		if seen[v] {
			return false
		}
		seen[v] = true
		phi, ok := v.(*ssa.Phi)
		if !ok {
			return false
		}
		if st.escPhis[phi] {
			return true
		}
		for _, e := range phi.Edges {
			if rec(e) {
				return true
			}
		}
		return false
	}
	return rec(v)
}

// isOtherFlagRead: v reads a boolean state flag that is not the escape flag (the in-quotes state).
func (st *splitterVars) isOtherFlagRead(v ssa.Value) bool {
	if u, ok := v.(*ssa.UnOp); ok && u.Op == token.MUL && isBoolType(u.Type()) {
		if fa, ok := u.X.(*ssa.FieldAddr); ok && !st.escFields[[2]interface{}{fa.X, fa.Field}] {
			return true
		}
	}
	if phi, ok := v.(*ssa.Phi); ok && isBoolType(phi.Type()) && !st.isEscRead(phi) {
		return true
	}
	return false
}
