package hcv

import (
	"os"
	"fmt"
	"go/token"
	"sort"
	"strings"

	"golang.org/x/tools/go/ssa"
)

// relaxationEdge describes a phi incoming that resets the staleness flag to a constant under a max-stale-derived condition.
type relaxationEdge struct {
	Phi  *ssa.Phi
	Idx  int
	Pred *ssa.BasicBlock
}

// dependsOnCall: v data-depends (through operators, conversions, phis, local cells) on a call for which pred holds.
func (an *Analysis) dependsOnCall(v ssa.Value, pred func(c *ssa.Call) bool) bool {
	hit := false
	an.P.TraceBack(v, TraceOpts{ThroughOps: true, ThroughExtern: true, NoParams: true, NoHeapFields: true}, func(x ssa.Value, _ []int) bool {
		if hit {
			return false
		}
		if c, ok := x.(*ssa.Call); ok && pred(c) {
			hit = true
			return false
		}
		if ex, ok := x.(*ssa.Extract); ok {
			if c, ok := ex.Tuple.(*ssa.Call); ok && pred(c) {
				hit = true
				return false
			}
		}
		return true
	})
	return hit
}

func (an *Analysis) isAccessorCall(c *ssa.Call, class, directive string) bool {
	sc := c.Call.StaticCallee()
	if sc == nil {
		return false
	}
	di, ok := an.A.DirAcc[sc]
	if !ok || di.Directive != directive {
		return false
	}
	cls := di.Class
	if cls == "rsT" && len(c.Call.Args) > 0 {
		cls = an.DirClass(c.Call.Args[0])
	}
	return cls == class
}

// staleFlagValues: the values stored into Freshness.IsStale in the freshness function.
func (an *Analysis) staleFlagStores() []*ssa.Store {
	var out []*ssa.Store
	for _, st := range an.P.StoresTo(an.A.FreshT, an.A.FreshStale) {
		if st.Parent() == an.A.F("freshness") {
			out = append(out, st)
		}
	}
	return out
}

// relaxationEdges finds phi incomings (transitively feeding the staleness flag) that are the constant false and whose
// predecessor is dominated by a branch on a condition derived from the request's max-stale accessor.
func (an *Analysis) relaxationEdges() []relaxationEdge {
	var out []relaxationEdge
	seen := map[*ssa.Phi]bool{}
	var visit func(v ssa.Value)
	visit = func(v ssa.Value) {
		phi, ok := v.(*ssa.Phi)
		if !ok || seen[phi] {
			return
		}
		seen[phi] = true
		for i, e := range phi.Edges {
			if b, isC := constBool(e); isC && !b {
				pred := phi.Block().Preds[i]
				// conditions dominating pred (and pred's own terminating condition)
				for blk := pred; blk != nil; blk = blk.Idom() {
					if len(blk.Instrs) == 0 {
						continue
					}
					iff, ok := blk.Instrs[len(blk.Instrs)-1].(*ssa.If)
					if !ok {
						continue
					}
					if an.dependsOnCall(iff.Cond, func(c *ssa.Call) bool { return an.isAccessorCall(c, "rq", "max-stale") }) {
						out = append(out, relaxationEdge{phi, i, pred})
						break
					}
				}
			} else {
				visit(e)
			}
		}
	}
	for _, st := range an.staleFlagStores() {
		visit(st.Val)
	}
	return out
}

func ruleC02_2(c *Ctx) {
	if !c.Need("C02.2", "freshness") {
		return
	}
	ff := c.A.F("freshness")
	edges := c.An.relaxationEdges()
	if len(edges) == 0 {
		// no relaxation at all: max-stale is not implemented; nothing can override must-revalidate
		c.Pass("C02.2", "no-relaxation", "no max-stale relaxation of the staleness flag exists", "freshness function scanned: "+c.P.ShortName(ff))
		return
	}
	for _, row := range []struct {
		name   string
		assume map[string]bool
	}{
		{"must-revalidate", map[string]bool{"rs.must-revalidate": true}},
	} {
		pr := c.An.Prune(ff, AssumeKeys(row.assume))
		for _, e := range edges {
			where := fmt.Sprintf("%s: phi %s incoming #%d from block %d", c.P.InstrPos(e.Phi), e.Phi.Comment, e.Idx, e.Pred.Index)
			live := pr.LiveBlock[e.Pred.Index] && pr.EdgeLive(e.Pred, e.Phi.Block())
			if live {
				c.Fail("C02.2", "relaxation-vs-"+row.name, "the max-stale relaxation of the staleness flag is dead when the stored response carries "+row.name,
					where+": under "+assumeString(row.assume)+" the staleness flag can still be reset by request max-stale, and the must-revalidate test downstream reads the relaxed flag. Witness: stored `max-age=1, must-revalidate`, request `max-stale` => served stale", where)
			} else {
				c.Pass("C02.2", "relaxation-vs-"+row.name, "the max-stale relaxation of the staleness flag is dead when the stored response carries "+row.name, where)
			}
		}
	}
}

// ruleRequestUntouched (C02.3 / C16.2): every header write and field store on an *http.Request happens on a clone.
func ruleRequestUntouched(c *Ctx, rule string) {
	cloneFn := c.A.F("cloneReq")
	isFreshReq := func(x ssa.Value) (bool, string) {
		ok := true
		why := ""
		for _, r := range c.P.Roots(x, TraceOpts{}) {
			switch y := r.(type) {
			case *ssa.Const:
				// nil: no request
			case *ssa.Alloc:
				if !isHTTPRequestPtr(y.Type()) {
					ok, why = false, "rooted at allocation "+y.String()
				}
			case *ssa.Call:
				if !(callIsMethod(&y.Call, "net/http", "Request", "Clone") || callIsMethod(&y.Call, "net/http", "Request", "WithContext") || callIsPkgFunc(&y.Call, "net/http", "NewRequest") || callIsPkgFunc(&y.Call, "net/http", "NewRequestWithContext")) {
					ok, why = false, "rooted at call "+y.String()
				}
			case *ssa.Parameter:
				ok, why = false, "rooted at parameter "+y.Name()+" of "+c.P.ShortName(y.Parent())+" (the caller's request)"
			default:
				ok, why = false, fmt.Sprintf("rooted at %T", r)
			}
		}
		return ok, why
	}
	var sites []string
	bad := 0
	for fn := range c.A.Reach {
		instrsOf(fn, func(in ssa.Instruction) {
			// header mutations
			var hdr ssa.Value
			what := ""
			if call := callOf(in); call != nil {
				for _, m := range []string{"Set", "Add", "Del"} {
					if callIsMethod(call, "net/http", "Header", m) {
						hdr, _ = recvAndArgs(call)
						what = "Header." + m
					}
				}
				if b, ok := call.Value.(*ssa.Builtin); ok && b.Name() == "delete" && len(call.Args) > 0 && isHTTPHeader(call.Args[0].Type()) {
					hdr, what = call.Args[0], "delete(header)"
				}
			}
			if mu, ok := in.(*ssa.MapUpdate); ok && isHTTPHeader(mu.Map.Type()) {
				hdr, what = mu.Map, "header[k]=v"
			}
			if hdr != nil && c.An.HeaderClass(hdr) == "rq" {
				where := fmt.Sprintf("%s@%s %s", c.P.ShortName(fn), c.P.InstrPos(in), what)
				sites = append(sites, where)
				// find the request whose header this is
				c.P.TraceBack(hdr, TraceOpts{}, func(v ssa.Value, _ []int) bool {
					if u, isU := v.(*ssa.UnOp); isU && u.Op == token.MUL {
						if fa, isFA := u.X.(*ssa.FieldAddr); isFA && isHTTPRequestPtr(fa.X.Type()) {
							if ok, why := isFreshReq(fa.X); !ok {
								bad++
								c.Fail(rule, "request-header-write fn="+c.P.ShortName(fn), "request headers are written only on clones", where+": "+why)
							}
							return false
						}
					}
					return true
				})
			}
			// field stores on a request
			if st, ok := in.(*ssa.Store); ok {
				if fa, ok := st.Addr.(*ssa.FieldAddr); ok && isHTTPRequestPtr(fa.X.Type()) {
					where := fmt.Sprintf("%s@%s store to Request.%s", c.P.ShortName(fn), c.P.InstrPos(in), fieldName(fa.X.Type(), fa.Field))
					sites = append(sites, where)
					if ok, why := isFreshReq(fa.X); !ok {
						bad++
						c.Fail(rule, "request-field-store fn="+c.P.ShortName(fn), "request fields are written only on clones", where+": "+why)
					}
				}
				// whole-struct copy *req2 = *req is fine when req2 is fresh
				if isHTTPRequestPtr(st.Addr.Type()) {
					if ok, why := isFreshReq(st.Addr); !ok {
						bad++
						c.Fail(rule, "request-struct-store fn="+c.P.ShortName(fn), "request structs are overwritten only on fresh allocations", c.P.InstrPos(in)+": "+why)
					} else {
						sites = append(sites, fmt.Sprintf("%s@%s *req2 = *req", c.P.ShortName(fn), c.P.InstrPos(in)))
					}
				}
			}
		})
	}
	sort.Strings(sites)
	if bad == 0 {
		c.Pass(rule, "request-untouched", "every header write / field store on a request is on a clone", sites...)
	}
	// the clone function copies the header map
	if cloneFn != nil {
		okClone := false
		where := ""
		instrsOf(cloneFn, func(in ssa.Instruction) {
			if st, ok := in.(*ssa.Store); ok {
				if fa, ok := st.Addr.(*ssa.FieldAddr); ok && isHTTPRequestPtr(fa.X.Type()) && fieldName(fa.X.Type(), fa.Field) == "Header" {
					where = c.P.InstrPos(in)
					if call, ok := st.Val.(*ssa.Call); ok && callIsMethod(&call.Call, "net/http", "Header", "Clone") {
						okClone = true
					}
				}
			}
		})
		if okClone {
			c.Pass(rule, "clone-copies-header", "the request clone gets a copy of the header map (Header.Clone)", c.P.ShortName(cloneFn)+"@"+where)
		} else {
			c.Fail(rule, "clone-copies-header", "the request clone gets a copy of the header map (Header.Clone)",
				c.P.ShortName(cloneFn)+": the clone's Header is not assigned from Header.Clone(); conditional headers would be written into the caller's header map")
		}
	}
}

func ruleC02_3(c *Ctx) {
	if !c.Need("C02.3", "cond", "cloneReq", "validationHandler") {
		return
	}
	cond := c.A.F("cond")
	// (i) validators copied per O-VALID from the stored header parameter
	want := map[string]string{"If-None-Match": "Etag", "If-Modified-Since": "Last-Modified"}
	got := map[string]bool{}
	instrsOf(cond, func(in ssa.Instruction) {
		call := callOf(in)
		if call == nil || !callIsMethod(call, "net/http", "Header", "Set") {
			return
		}
		_, args := recvAndArgs(call)
		k, ok := constStr(args[0])
		if !ok {
			return
		}
		src, isValidator := want[k]
		if !isValidator {
			return
		}
		where := fmt.Sprintf("%s@%s Set(%q, ...)", c.P.ShortName(cond), c.P.InstrPos(in), k)
		okSrc := false
		c.P.TraceBack(args[1], TraceOpts{NoParams: true}, func(v ssa.Value, _ []int) bool {
			if gc, isCall := v.(*ssa.Call); isCall && (callIsMethod(&gc.Call, "net/http", "Header", "Get") || callIsMethod(&gc.Call, "net/http", "Header", "Values")) {
				r, a := recvAndArgs(&gc.Call)
				if s, ok := constStr(a[0]); ok && strings.EqualFold(s, src) && c.An.HeaderClass(r) == "rs" {
					okSrc = true
				}
				return false
			}
			return true
		})
		got[k] = true
		if okSrc {
			c.Pass("C02.3", "validator="+k, k+" is copied from the stored response's "+src, where)
		} else {
			c.Fail("C02.3", "validator="+k, k+" is copied from the stored response's "+src, where+": value does not come from the stored header's "+src+" field")
		}
	})
	for k := range want {
		if !got[k] {
			c.Fail("C02.3", "validator="+k, "the conditional-request builder sets "+k, "no Header.Set(\""+k+"\") in "+c.P.ShortName(cond))
		}
	}
	// (ii)/(iii)/(v)
	ruleRequestUntouched(c, "C02.3")
	// (iv) the request handed to the validation handler (and hence to the origin) is the result of the builder
	n := 0
	for fn := range c.A.Reach {
		instrsOf(fn, func(in ssa.Instruction) {
			if !c.An.CallsRole(in, "validationHandler") {
				return
			}
			n++
			call := callOf(in)
			_, args := recvAndArgs(call)
			if len(args) < 3 {
				return
			}
			where := fmt.Sprintf("%s@%s", c.P.ShortName(fn), c.P.InstrPos(in))
			okAll := true
			why := ""
			check := func(v ssa.Value, what string) {
				c.P.TraceBack(v, TraceOpts{}, func(x ssa.Value, _ []int) bool {
					switch y := x.(type) {
					case *ssa.Call:
						if y.Call.StaticCallee() == cond {
							return false
						}
						if callIsMethod(&y.Call, "net/http", "Request", "WithContext") || callIsMethod(&y.Call, "net/http", "Request", "Clone") {
							// keep following the receiver
							r, _ := recvAndArgs(&y.Call)
							c.P.TraceBack(r, TraceOpts{}, func(z ssa.Value, _ []int) bool {
								if zc, ok := z.(*ssa.Call); ok && zc.Call.StaticCallee() == cond {
									return false
								}
								if zp, ok := z.(*ssa.Parameter); ok && zp == c.A.Root.Params[1] {
									okAll, why = false, what+" reaches RoundTrip's request without passing the conditional-request builder"
								}
								if zc, ok := z.(*ssa.Call); ok && (callIsMethod(&zc.Call, "net/http", "Request", "WithContext") || callIsMethod(&zc.Call, "net/http", "Request", "Clone")) {
									return true
								}
								return true
							})
							return false
						}
					case *ssa.Parameter:
						if y == c.A.Root.Params[1] {
							okAll, why = false, what+" is RoundTrip's request, not the result of the conditional-request builder"
						}
					}
					return true
				})
			}
			check(args[1], "the request passed to the validation handler")
			// the response passed must come from an origin call made with a request that passed the builder
			c.P.TraceBack(args[2], TraceOpts{NoParams: true}, func(x ssa.Value, _ []int) bool {
				if ex, ok := x.(*ssa.Extract); ok {
					if uc, ok := ex.Tuple.(*ssa.Call); ok && c.An.IsUpstreamCall(&uc.Call) {
						return false
					}
				}
				return true
			})
			if okAll {
				c.Pass("C02.3", "validation-request fn="+c.P.ShortName(fn), "the request sent for validation is the conditional request", where)
			} else {
				c.Fail("C02.3", "validation-request fn="+c.P.ShortName(fn), "the request sent for validation is the conditional request", where+": "+why)
			}
		})
	}
	if n == 0 {
		c.Undecided("C02.3", "vacuity-validation-sites", "a validation handler call site exists", "no call of the validation handler reachable from RoundTrip")
	}
	// upstream request argument at validation sites: the origin call inside the timed wrapper gets the same request
	for fn := range c.A.Reach {
		instrsOf(fn, func(in ssa.Instruction) {
			call := callOf(in)
			if call == nil || !c.An.IsUpstreamCall(call) {
				return
			}
			_ = fn
		})
	}
}

// IsStripFields: a call that iterates the qualified no-cache field list and deletes each field from a header:
// a dynamic call of an iter.Seq value derived from the stored no-cache accessor, whose body closure calls Header.Del.
func (an *Analysis) IsStripFields(in ssa.Instruction) bool {
	call, ok := in.(*ssa.Call)
	if !ok || call.Call.IsInvoke() || call.Call.StaticCallee() != nil {
		return false
	}
	if len(call.Call.Args) != 1 {
		return false
	}
	mc, ok := call.Call.Args[0].(*ssa.MakeClosure)
	if !ok {
		return false
	}
	body := mc.Fn.(*ssa.Function)
	dels := false
	instrsOf(body, func(i2 ssa.Instruction) {
		if c2 := callOf(i2); c2 != nil && callIsMethod(c2, "net/http", "Header", "Del") {
			r, _ := recvAndArgs(c2)
			// the header section of the stored response (its Trailer member is a Header too: C02.12 looks at that one)
			isTrailer := false
			if u, ok := peel(r).(*ssa.UnOp); ok && u.Op == token.MUL {
				if fa, ok := u.X.(*ssa.FieldAddr); ok && fieldName(fa.X.Type(), fa.Field) == "Trailer" {
					isTrailer = true
				}
			}
			if an.HeaderClass(r) == "rs" && !isTrailer {
				dels = true
			}
		}
		if c2 := callOf(i2); c2 != nil {
			if b, ok := c2.Value.(*ssa.Builtin); ok && b.Name() == "delete" && len(c2.Args) == 2 && isHTTPHeader(c2.Args[0].Type()) {
				// deletion by map key matches only the canonical spelling: the name taken from the directive's argument
				// must be canonicalised first (Header.Del does that itself)
				if an.dependsOnCall(c2.Args[1], func(cc *ssa.Call) bool {
					return callIsPkgFunc(&cc.Call, "net/http", "CanonicalHeaderKey") || callIsPkgFunc(&cc.Call, "net/textproto", "CanonicalMIMEHeaderKey")
				}) {
					dels = true
				}
			}
		}
	})
	if !dels {
		return false
	}
	// the sequence must derive from the stored response's no-cache accessor
	return an.dependsOnCallFull(call.Call.Value, func(c *ssa.Call) bool { return an.isAccessorCall(c, "rs", "no-cache") })
}

// dependsOnCallFull is dependsOnCall crossing parameters.
func (an *Analysis) dependsOnCallFull(v ssa.Value, pred func(c *ssa.Call) bool) bool {
	hit := false
	an.P.TraceBack(v, TraceOpts{ThroughOps: true, ThroughExtern: true, NoHeapFields: true}, func(x ssa.Value, _ []int) bool {
		if hit {
			return false
		}
		if c, ok := x.(*ssa.Call); ok && pred(c) {
			hit = true
			return false
		}
		if ex, ok := x.(*ssa.Extract); ok {
			if c, ok := ex.Tuple.(*ssa.Call); ok && pred(c) {
				hit = true
				return false
			}
		}
		return true
	})
	return hit
}

func ruleC02_4(c *Ctx) {
	assume := map[string]bool{"rs.no-cache.arg": true, not304: false}
	as := AssumeKeys(closeImplications(assume))
	nStrip := 0
	for fn := range c.A.Reach {
		instrsOf(fn, func(in ssa.Instruction) {
			if c.An.IsStripFields(in) {
				nStrip++
			}
		})
	}
	if nStrip == 0 {
		c.Fail("C02.4", "strip-exists", "a qualified no-cache field stripper exists on the exchange", "no loop deleting the fields named by the stored no-cache directive is reachable from RoundTrip")
		return
	}
	n := 0
	for fn := range c.A.Reach {
		hasServe := false
		instrsOf(fn, func(in ssa.Instruction) {
			if c.An.IsServeReturn(in) {
				hasServe = true
			}
		})
		if !hasServe {
			continue
		}
		pr := c.An.Prune(fn, as)
		isK := c.An.KUnder("STRIP-FIELDS", "qualified-no-cache", as, c.An.IsStripFields)
		r := c.An.MustPass(pr, c.An.IsServeReturn, isK)
		if r.Targets == 0 {
			continue // only validated (304) returns here
		}
		n++
		key := "strip-before-serve fn=" + c.P.ShortName(fn)
		desc := "under qualified no-cache every unvalidated return of the stored response passes the field stripper"
		if r.OK {
			c.Pass("C02.4", key, desc, fmt.Sprintf("%s: %d serve returns", c.P.ShortName(fn), r.Targets))
		} else {
			c.Fail("C02.4", key, desc, fmt.Sprintf("%s: return of the stored response reachable without stripping the fields nominated by no-cache=\"...\". Witness: stored `no-cache=\"Set-Cookie\"` replayed with Set-Cookie on this path", c.P.InstrPos(r.Missing[0])),
				fmt.Sprintf("%s: %d serve returns", c.P.ShortName(fn), r.Targets))
		}
	}
	if n == 0 {
		c.Undecided("C02.4", "vacuity", "an unvalidated serve return exists", "no return of a stored response found")
	}
}

func ruleC02_5(c *Ctx) {
	if !c.Need("C02.5", "validationHandler") {
		return
	}
	vh := c.A.F("validationHandler")
	assume := map[string]bool{"nil:err": true, not304: false, "pred:sieStatus": false}
	pr := c.An.Prune(vh, AssumeKeys(assume))
	var bad []ssa.Instruction
	total := 0
	instrsOf(vh, func(in ssa.Instruction) {
		if c.An.IsServeReturn(in) {
			total++
		}
	})
	pr.LiveInstrs(func(in ssa.Instruction) {
		if c.An.IsServeReturn(in) {
			bad = append(bad, in)
		}
	})
	desc := "with a successful origin answer other than 304 (and no stale-if-error status) the stored response is not returned"
	if total == 0 {
		c.Undecided("C02.5", "vacuity", "the validation handler has a return of the stored response", "no serve return in "+c.P.ShortName(vh))
		return
	}
	if len(bad) > 0 {
		c.Fail("C02.5", "handler-304-only", desc, c.P.InstrPos(bad[0])+": stored response returned under "+assumeString(assume)+". Witness: origin answers 200 and the old body is returned")
		return
	}
	c.Pass("C02.5", "handler-304-only", desc, fmt.Sprintf("%s: %d serve returns, all dead under %s", c.P.ShortName(vh), total, assumeString(assume)))
}

// ruleValidatorGuards (C02.3 / C20.6): the conditional-request builder copies a stored validator whenever one is stored:
// the only decisions in front of `Set("If-None-Match", …)` / `Set("If-Modified-Since", …)` are presence tests of header
// fields (and nil tests). A further test on the validator's value (strong tags only, …) leaves some stored validators
// unused, and the validation goes out unconditional.
func ruleValidatorGuards(c *Ctx, rule string) {
	if !c.Need(rule, "cond") {
		return
	}
	fn := c.A.F("cond")
	desc := "a stored validator is used whenever it is present (no further condition on its value)"
	n := 0
	for _, g := range c.reachableFrom(fn) {
		instrsOf(g, func(in ssa.Instruction) {
			cc := callOf(in)
			if cc == nil || !callIsMethod(cc, "net/http", "Header", "Set") {
				return
			}
			_, args := recvAndArgs(cc)
			k, ok := constStr(args[0])
			if !ok || (k != "If-None-Match" && k != "If-Modified-Since") {
				return
			}
			n++
			other := ""
			for _, dc := range controlConds(in.Block()) {
				for _, lf := range condLeaves(dc.cond, dc.onTrue) {
					if a, _, ok := c.An.AtomOf(lf.v); ok && (strings.HasPrefix(a.Key, "hdr.") && strings.HasSuffix(a.Key, ".present") || strings.HasPrefix(a.Key, "nil:")) {
						continue
					}
					// the presence test on a validator that was read into a local or a struct member first
					if bo, isB := lf.v.(*ssa.BinOp); isB && (bo.Op == token.EQL || bo.Op == token.NEQ) {
						own := "Etag"
						if k == "If-Modified-Since" {
							own = "Last-Modified"
						}
						okLeaf := false
						for _, side := range [][2]ssa.Value{{bo.X, bo.Y}, {bo.Y, bo.X}} {
							if e, isK := constStr(side[1]); !isK || e != "" {
								continue
							}
							roots := c.P.Roots(side[0], TraceOpts{NoHeapFields: true, NoParams: true})
							if os.Getenv("HCV_DEBUG") != "" {
								for _, r := range roots {
									fmt.Fprintf(os.Stderr, "validator-guard %s root of %s: %T %s\n", k, side[0].Name(), r, r.String())
								}
							}
							all := len(roots) > 0
							for _, r := range roots {
								if u, isU := r.(*ssa.UnOp); isU {
									if _, local := u.X.(*ssa.Alloc); local {
										continue // the load of a struct literal the value travels in
									}
								}
								call, isCall := r.(*ssa.Call)
								if !isCall || !isHeaderGetOf(call, own) {
									all = false
								}
							}
							if all {
								okLeaf = true
							}
						}
						if okLeaf {
							continue
						}
					}
					other = fmt.Sprintf("`%s` (%s)", lf.v.String(), c.P.Pos(lf.v.Pos()))
				}
			}
			key := "validator-guard field=" + k
			if other != "" {
				c.Fail(rule, key, desc, c.P.InstrPos(in)+": "+k+" is set only if "+other+"; e.g. an entry whose only validator is a weak ETag (W/\"...\") is revalidated with an unconditional GET")
			} else {
				c.Pass(rule, key, desc, c.P.InstrPos(in))
			}
		})
	}
	if n == 0 {
		c.Undecided(rule, "validator-guard", desc, "no Set of If-None-Match / If-Modified-Since in "+c.P.ShortName(fn))
	}
}
