package hcv

import (
	"fmt"
	"go/constant"
	"go/token"
	"go/types"

	"golang.org/x/tools/go/ssa"
)

// Table extraction (E4): a predicate whose scalar parameter is only compared with constants (directly, through switch
// chains, through other such predicates, or through lookups in constant map literals) denotes a finite table. The table
// is read off by constant propagation over the SSA for one representative of every cell of the partition induced by the
// constants. Any other use of the parameter makes the result undecided, with the offending construct named.

type txFrame struct {
	fn    *ssa.Function
	env   map[ssa.Value]constant.Value
	depth int
}

type txUndecided struct{ why string }

func (e txUndecided) Error() string { return e.why }

// EvalPred evaluates fn(args...) by constant propagation. Returns the constant results or an undecided reason.
func (an *Analysis) EvalPred(fn *ssa.Function, args []constant.Value, depth int) ([]constant.Value, error) {
	if depth > 8 {
		return nil, txUndecided{"recursion too deep at " + an.P.ShortName(fn)}
	}
	if len(fn.Blocks) == 0 {
		return nil, txUndecided{"no body: " + fn.String()}
	}
	if len(args) != len(fn.Params) {
		return nil, txUndecided{fmt.Sprintf("arity mismatch calling %s", an.P.ShortName(fn))}
	}
	fr := &txFrame{fn: fn, env: map[ssa.Value]constant.Value{}, depth: depth}
	for i, p := range fn.Params {
		fr.env[p] = args[i]
	}
	var prev *ssa.BasicBlock
	b := fn.Blocks[0]
	steps := 0
	for {
		steps++
		if steps > 10000 {
			return nil, txUndecided{"evaluation does not terminate in " + an.P.ShortName(fn)}
		}
		var next *ssa.BasicBlock
		for _, in := range b.Instrs {
			switch x := in.(type) {
			case *ssa.DebugRef:
			case *ssa.Phi:
				idx := -1
				for i, pd := range b.Preds {
					if pd == prev {
						idx = i
					}
				}
				if idx < 0 {
					return nil, txUndecided{"phi without predecessor"}
				}
				v, err := an.txVal(fr, x.Edges[idx])
				if err != nil {
					return nil, err
				}
				fr.env[x] = v
			case *ssa.If:
				v, err := an.txVal(fr, x.Cond)
				if err != nil {
					return nil, err
				}
				if v.Kind() != constant.Bool {
					return nil, txUndecided{"non-boolean condition"}
				}
				if constant.BoolVal(v) {
					next = b.Succs[0]
				} else {
					next = b.Succs[1]
				}
			case *ssa.Jump:
				next = b.Succs[0]
			case *ssa.Return:
				var out []constant.Value
				for _, r := range x.Results {
					v, err := an.txVal(fr, r)
					if err != nil {
						return nil, err
					}
					out = append(out, v)
				}
				return out, nil
			case ssa.Value:
				// evaluated lazily by txVal
			default:
				return nil, txUndecided{fmt.Sprintf("%s: instruction with effect `%s` in a table predicate", an.P.InstrPos(in), in.String())}
			}
		}
		if next == nil {
			return nil, txUndecided{"block without successor in " + an.P.ShortName(fn)}
		}
		prev, b = b, next
	}
}

func (an *Analysis) txVal(fr *txFrame, v ssa.Value) (constant.Value, error) {
	if c, ok := fr.env[v]; ok {
		return c, nil
	}
	val, err := an.txCompute(fr, v)
	if err != nil {
		return nil, err
	}
	fr.env[v] = val
	return val, nil
}

func (an *Analysis) txCompute(fr *txFrame, v ssa.Value) (constant.Value, error) {
	switch x := v.(type) {
	case *ssa.Const:
		if x.Value == nil {
			return nil, txUndecided{"nil constant"}
		}
		return x.Value, nil
	case *ssa.BinOp:
		l, err := an.txVal(fr, x.X)
		if err != nil {
			return nil, err
		}
		r, err := an.txVal(fr, x.Y)
		if err != nil {
			return nil, err
		}
		switch x.Op {
		case token.EQL, token.NEQ, token.LSS, token.LEQ, token.GTR, token.GEQ:
			if l.Kind() != r.Kind() {
				return nil, txUndecided{"comparison of different kinds"}
			}
			return constant.MakeBool(constant.Compare(l, x.Op, r)), nil
		case token.ADD, token.SUB, token.MUL, token.AND, token.OR, token.XOR:
			if l.Kind() == constant.Int && r.Kind() == constant.Int || l.Kind() == constant.String && x.Op == token.ADD {
				return constant.BinaryOp(l, x.Op, r), nil
			}
		case token.SHL, token.SHR:
			if s, ok := constant.Uint64Val(r); ok && l.Kind() == constant.Int {
				return constant.Shift(l, x.Op, uint(s)), nil
			}
		}
		return nil, txUndecided{fmt.Sprintf("%s: operator %s on the scalar", an.P.InstrPos(x), x.Op)}
	case *ssa.UnOp:
		if x.Op == token.NOT {
			o, err := an.txVal(fr, x.X)
			if err != nil {
				return nil, err
			}
			return constant.MakeBool(!constant.BoolVal(o)), nil
		}
		return nil, txUndecided{fmt.Sprintf("%s: `%s` (memory read) in a table predicate", an.P.InstrPos(x), x.String())}
	case *ssa.Convert:
		o, err := an.txVal(fr, x.X)
		if err != nil {
			return nil, err
		}
		if bt, ok := x.Type().Underlying().(*types.Basic); ok && bt.Info()&types.IsInteger != 0 && o.Kind() == constant.Int {
			// truncation for small unsigned types
			switch bt.Kind() {
			case types.Uint8:
				u, _ := constant.Uint64Val(constant.BinaryOp(o, token.AND, constant.MakeInt64(0xff)))
				return constant.MakeUint64(u), nil
			}
			return o, nil
		}
		if isStringType(x.Type()) && o.Kind() == constant.String {
			return o, nil
		}
		return nil, txUndecided{fmt.Sprintf("%s: conversion %s", an.P.InstrPos(x), x.String())}
	case *ssa.ChangeType:
		return an.txVal(fr, x.X)
	case *ssa.Call:
		sc := x.Call.StaticCallee()
		if sc == nil {
			return nil, txUndecided{fmt.Sprintf("%s: dynamic call `%s` in a table predicate", an.P.InstrPos(x), x.String())}
		}
		if !an.P.IsRepoFunc(sc) {
			return nil, txUndecided{fmt.Sprintf("%s: the scalar is passed to %s, which is not a comparison with constants", an.P.InstrPos(x), sc.String())}
		}
		var args []constant.Value
		for _, a := range x.Call.Args {
			av, err := an.txVal(fr, a)
			if err != nil {
				return nil, err
			}
			args = append(args, av)
		}
		res, err := an.EvalPred(sc, args, fr.depth+1)
		if err != nil {
			return nil, err
		}
		if len(res) != 1 {
			return nil, txUndecided{"callee with several results"}
		}
		return res[0], nil
	case *ssa.Lookup, *ssa.Field, *ssa.Extract:
		// a lookup in a constant table: m[k], m[k].f, v, ok := m[k]
		field, comp := -1, -1
		base := v
		if f, ok := base.(*ssa.Field); ok {
			field, base = f.Field, f.X
		}
		if e, ok := base.(*ssa.Extract); ok {
			comp, base = e.Index, e.Tuple
		}
		cm, lk := constMapLookup(base)
		if cm == nil || lk.CommaOk != (comp >= 0) {
			break
		}
		k, err := an.txVal(fr, lk.Index)
		if err != nil {
			return nil, err
		}
		val, present := cm.vals[k.ExactString()]
		if comp == 1 {
			if field >= 0 {
				break
			}
			return constant.MakeBool(present), nil
		}
		if cm.set {
			break // an empty-struct value carries nothing; only the membership result is meaningful
		}
		if !present {
			val = cm.zero
		}
		switch {
		case cm.fields == 0 && field < 0:
			return val[0], nil
		case cm.fields > 0 && field >= 0 && field < len(val) && val[field] != nil:
			return val[field], nil
		}
	case *ssa.Phi:
		return nil, txUndecided{"phi evaluated out of order"}
	case *ssa.Parameter:
		return nil, txUndecided{"unbound parameter " + x.Name()}
	}
	return nil, txUndecided{fmt.Sprintf("%s: `%s` (%T) in a table predicate", an.P.Pos(v.Pos()), v.String(), v)}
}

// IntCells returns representatives of the partition of the integers induced by the constants of fn (and of the repo
// predicates it calls): every constant, its neighbours, and the extremes.
func (an *Analysis) IntCells(fn *ssa.Function, lo, hi int64) []int64 {
	cs := map[int64]bool{lo: true, hi: true}
	seen := map[*ssa.Function]bool{}
	var collect func(f *ssa.Function)
	collect = func(f *ssa.Function) {
		if seen[f] {
			return
		}
		seen[f] = true
		for k := range intConstsIn(f) {
			for _, d := range []int64{-1, 0, 1} {
				if k+d >= lo && k+d <= hi {
					cs[k+d] = true
				}
			}
		}
		instrsOf(f, func(in ssa.Instruction) {
			if c := callOf(in); c != nil {
				if sc := c.StaticCallee(); sc != nil && an.P.IsRepoFunc(sc) {
					collect(sc)
				}
			}
		})
	}
	collect(fn)
	var out []int64
	for k := range cs {
		out = append(out, k)
	}
	sortInt64(out)
	return out
}

func sortInt64(a []int64) {
	for i := 1; i < len(a); i++ {
		for j := i; j > 0 && a[j-1] > a[j]; j-- {
			a[j-1], a[j] = a[j], a[j-1]
		}
	}
}

// IntTable evaluates a func(int) bool over the cells; returns the cells mapped to true.
func (an *Analysis) IntTable(fn *ssa.Function, lo, hi int64) (trueCells []int64, cells []int64, err error) {
	cells = an.IntCells(fn, lo, hi)
	for _, k := range cells {
		res, e := an.EvalPred(fn, []constant.Value{constant.MakeInt64(k)}, 0)
		if e != nil {
			return nil, cells, e
		}
		if len(res) != 1 || res[0].Kind() != constant.Bool {
			return nil, cells, txUndecided{"predicate does not return one bool"}
		}
		if constant.BoolVal(res[0]) {
			trueCells = append(trueCells, k)
		}
	}
	return trueCells, cells, nil
}

// StrTable evaluates a func(string) bool over the given probes plus every string constant of fn plus a fresh string.
func (an *Analysis) StrTable(fn *ssa.Function, probes []string) (map[string]bool, error) {
	set := map[string]bool{}
	for s := range stringConstsIn(fn) {
		set[s] = true
	}
	for _, s := range probes {
		set[s] = true
	}
	set["\x00other-token\x00"] = true
	out := map[string]bool{}
	for s := range set {
		res, e := an.EvalPred(fn, []constant.Value{constant.MakeString(s)}, 0)
		if e != nil {
			return nil, e
		}
		if len(res) != 1 || res[0].Kind() != constant.Bool {
			return nil, txUndecided{"predicate does not return one bool"}
		}
		out[s] = constant.BoolVal(res[0])
	}
	return out, nil
}
