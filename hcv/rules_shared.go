package hcv

import (
	"fmt"
	"go/token"
	"sort"
	"strings"

	"golang.org/x/tools/go/ssa"
)

// ruleRREQ: every request-directive map consulted on the exchange is parsed from RoundTrip's req parameter or a clone
// of it. Justifies exchange-global rq.* assumptions.
func ruleRREQ(c *Ctx, rule string) {
	if !c.Need(rule, "parseReq") {
		return
	}
	rootReq := c.A.Root.Params[1]
	n := 0
	bad := 0
	for fn := range c.A.Reach {
		instrsOf(fn, func(in ssa.Instruction) {
			call := callOf(in)
			if call == nil || call.StaticCallee() != c.A.F("parseReq") || len(call.Args) != 1 {
				return
			}
			n++
			where := fmt.Sprintf("%s@%s", c.P.ShortName(fn), c.P.InstrPos(in))
			cls := c.An.HeaderClass(call.Args[0])
			if cls != "rq" {
				bad++
				c.Fail(rule, "parse-site fn="+c.P.ShortName(fn), "request directives are parsed from the request header", where+": header argument has class "+cls)
				return
			}
			// the request whose header is parsed must be R's req (or a clone)
			ok := true
			var why string
			c.P.TraceBack(call.Args[0], TraceOpts{}, func(v ssa.Value, _ []int) bool {
				if u, isU := v.(*ssa.UnOp); isU && u.Op == token.MUL {
					if fa, isFA := u.X.(*ssa.FieldAddr); isFA && isHTTPRequestPtr(fa.X.Type()) {
						for _, r := range c.P.Roots(fa.X, TraceOpts{}) {
							switch x := r.(type) {
							case *ssa.Parameter:
								if x != rootReq {
									ok, why = false, "request parameter "+x.Name()+" of "+c.P.ShortName(x.Parent())+" has no caller on the exchange"
								}
							case *ssa.Alloc:
								if !isHTTPRequestPtr(x.Type()) {
									ok, why = false, "unexpected allocation "+x.String()
								}
							case *ssa.Call:
								if !(callIsMethod(&x.Call, "net/http", "Request", "Clone") || callIsMethod(&x.Call, "net/http", "Request", "WithContext")) {
									ok, why = false, "request produced by "+x.String()
								}
							default:
								ok, why = false, fmt.Sprintf("request rooted at %T %s", r, r.String())
							}
						}
						return false
					}
				}
				return true
			})
			if !ok {
				bad++
				c.Fail(rule, "parse-site fn="+c.P.ShortName(fn), "request directives are parsed from RoundTrip's request", where+": "+why)
				return
			}
			c.Pass(rule, "parse-site fn="+c.P.ShortName(fn), "request directives are parsed from RoundTrip's request (or a clone)", where)
		})
	}
	if n == 0 {
		c.Undecided(rule, "vacuity", "a request-directive parse site exists on the exchange", "no call of the request-directive parser is reachable from RoundTrip")
	}
	// every other source of a request-directive map on the exchange (struct fields) is fed by such a parse
	for fn := range c.A.Reach {
		instrsOf(fn, func(in ssa.Instruction) {
			call := callOf(in)
			if call == nil {
				return
			}
			sc := call.StaticCallee()
			di, isAcc := c.A.DirAcc[sc]
			if !isAcc || di.Class != "rq" || len(call.Args) == 0 {
				return
			}
			okAll := true
			why := ""
			c.P.TraceBack(call.Args[0], TraceOpts{}, func(v ssa.Value, _ []int) bool {
				switch x := v.(type) {
				case *ssa.Call:
					if x.Call.StaticCallee() == c.A.F("parseReq") {
						return false
					}
					// a copy of the parsed map from which directives are only removed (never added or changed)
					if sc := x.Call.StaticCallee(); sc != nil {
						n := sc.String()
						if o := sc.Origin(); o != nil {
							n = o.String()
						}
						if strings.HasPrefix(n, "maps.Clone") && len(x.Call.Args) == 1 && !c.mapUpdated(x) {
							c.P.TraceBack(x.Call.Args[0], TraceOpts{}, func(w ssa.Value, _ []int) bool {
								if cc, ok := w.(*ssa.Call); ok {
									if cc.Call.StaticCallee() == c.A.F("parseReq") {
										return false
									}
									if len(c.P.RepoCallees(cc)) == 0 {
										okAll, why = false, "map cloned from "+cc.String()
									}
								}
								return true
							})
							return false
						}
					}
					if len(c.P.RepoCallees(x)) == 0 {
						okAll, why = false, "map produced by "+x.String()
					}
				case *ssa.MakeMap:
					// a copy filled, pair by pair, from a range over a parsed map (directives are only left out)
					if src := c.filteredCopySource(x); src != nil {
						parsed := true
						c.P.TraceBack(src, TraceOpts{}, func(w ssa.Value, _ []int) bool {
							switch cc := w.(type) {
							case *ssa.Call:
								if cc.Call.StaticCallee() == c.A.F("parseReq") {
									return false
								}
								if len(c.P.RepoCallees(cc)) == 0 {
									parsed = false
								}
							case *ssa.MakeMap:
								parsed = false
							}
							return true
						})
						if parsed {
							return false
						}
					}
					okAll, why = false, "map built locally at "+c.P.Pos(x.Pos())
				case *ssa.Parameter:
					if len(c.P.Callers(x.Parent())) == 0 && c.A.Reach[x.Parent()] {
						okAll, why = false, "parameter without caller: "+x.Name()+" of "+c.P.ShortName(x.Parent())
					}
				}
				return true
			})
			if !okAll {
				bad++
				c.Fail(rule, "accessor-source fn="+c.P.ShortName(fn)+" dir="+di.Directive, "request directive maps consulted on the exchange come from the request-directive parser", c.P.InstrPos(in)+": "+why)
			}
		})
	}
	if bad == 0 {
		c.Pass(rule, "accessor-sources", "every request directive accessor on the exchange reads a map produced by the parser", fmt.Sprintf("%d parse sites", n))
	}
}

// ruleRFRESH: one freshness computation per exchange, and Freshness fields are written only where a Freshness is built.
func ruleRFRESH(c *Ctx, rule string) {
	if !c.Need(rule, "freshness") {
		return
	}
	ff := c.A.F("freshness")
	var sites []string
	for fn := range c.A.Reach {
		instrsOf(fn, func(in ssa.Instruction) {
			if ci, ok := in.(ssa.CallInstruction); ok {
				for _, cal := range c.P.Callees(ci) {
					if c.A.IsRoleFunc(cal, "freshness") && c.A.roleOf[fn] != "freshness" {
						sites = append(sites, fmt.Sprintf("%s@%s", c.P.ShortName(fn), c.P.InstrPos(in)))
					}
				}
			}
		})
	}
	sort.Strings(sites)
	if len(sites) != 1 {
		c.Fail(rule, "one-freshness-call", "exactly one call site of the freshness calculator is reachable from RoundTrip", fmt.Sprintf("found %d: %v", len(sites), sites), sites...)
	} else {
		c.Pass(rule, "one-freshness-call", "exactly one call site of the freshness calculator is reachable from RoundTrip", sites...)
	}
	// who writes Freshness fields
	var writers []string
	badW := 0
	for _, fld := range []int{c.A.FreshStale, c.A.FreshAge, c.A.FreshLife} {
		for _, st := range c.P.StoresTo(c.A.FreshT, fld) {
			fn := st.Parent()
			if isTestOnly(c, fn) {
				continue
			}
			w := fmt.Sprintf("%s@%s", c.P.ShortName(fn), c.P.InstrPos(st))
			writers = append(writers, w)
			// must be a store into a fresh allocation in the freshness function
			fa := st.Addr.(*ssa.FieldAddr)
			_, isAlloc := fa.X.(*ssa.Alloc)
			if fn != ff || !isAlloc {
				badW++
				c.Fail(rule, "freshness-writer fn="+c.P.ShortName(fn), "Freshness fields are written only in the freshness calculator on a fresh allocation", w)
			}
		}
	}
	if badW == 0 {
		c.Pass(rule, "freshness-writers", "Freshness fields are written only in the freshness calculator on a fresh allocation", writers...)
	}
}

// isTestOnly: function is not reachable from RoundTrip nor from any exported constructor (mocks, testutil, acceptance).
func isTestOnly(c *Ctx, fn *ssa.Function) bool {
	if fn.Pkg == nil {
		if fn.Parent() != nil {
			return isTestOnly(c, fn.Parent())
		}
		return false
	}
	path := fn.Pkg.Pkg.Path()
	if strings.HasSuffix(path, "/internal/testutil") || strings.HasSuffix(path, "/store/acceptance") {
		return true
	}
	return isMockRecv(fn)
}

// ruleRPURE: directive accessors are effect-free (justifies identifying two evaluations of one accessor).
func ruleRPURE(c *Ctx, rule string) {
	var names []string
	bad := 0
	for fn, di := range c.A.DirAcc {
		if why := c.An.EffectFree(fn); why != "" {
			bad++
			c.Fail(rule, "accessor="+di.Class+"."+di.Directive, "directive accessors are effect-free", c.P.ShortName(fn)+": "+why)
		}
		names = append(names, c.P.ShortName(fn))
	}
	for fn := range c.A.RawValue {
		if why := c.An.EffectFree(fn); why != "" {
			bad++
			c.Fail(rule, "rawvalue="+c.P.ShortName(fn), "raw value decoders are effect-free", why)
		}
		names = append(names, c.P.ShortName(fn))
	}
	sort.Strings(names)
	if bad == 0 {
		c.Pass(rule, "accessors-pure", "directive accessors and raw value decoders are effect-free", names...)
	}
}

// ruleNOREFLECT: no reflect/unsafe/linkname in repo packages (keeps the call graph honest).
func ruleNOREFLECT(c *Ctx, rule string) {
	var bad []string
	n := 0
	for _, pk := range c.P.Pkgs {
		n++
		for path := range pk.Imports {
			if path == "reflect" || path == "unsafe" {
				if strings.HasSuffix(pk.PkgPath, "/internal/testutil") {
					continue
				}
				bad = append(bad, pk.PkgPath+" imports "+path)
			}
		}
		for _, f := range pk.Syntax {
			for _, cg := range f.Comments {
				for _, cm := range cg.List {
					if strings.HasPrefix(cm.Text, "//go:linkname") {
						bad = append(bad, pk.PkgPath+" uses go:linkname")
					}
				}
			}
		}
	}
	if len(bad) > 0 {
		c.Fail(rule, "no-reflect", "repo packages do not use reflect/unsafe/linkname", strings.Join(bad, "; "))
		return
	}
	c.Pass(rule, "no-reflect", "repo packages do not use reflect/unsafe/linkname", fmt.Sprintf("%d packages scanned", n))
}

// mapUpdated: some instruction stores an element into the map value m (directly; m is a fresh clone held in a local).
func (c *Ctx) mapUpdated(m ssa.Value) bool {
	upd := false
	if refs := m.Referrers(); refs != nil {
		for _, r := range *refs {
			if mu, ok := r.(*ssa.MapUpdate); ok && mu.Map == m {
				upd = true
			}
		}
	}
	return upd
}

// filteredCopySource: mk is a map that is only ever updated with the key and the value of one and the same step of a
// range over another map (a copy that leaves pairs out, never adds or changes one); returns that other map, else nil.
func (c *Ctx) filteredCopySource(mk *ssa.MakeMap) ssa.Value {
	var src ssa.Value
	n := 0
	ok := true
	var visit func(v ssa.Value, seen map[ssa.Value]bool)
	visit = func(v ssa.Value, seen map[ssa.Value]bool) {
		if seen[v] || v.Referrers() == nil {
			return
		}
		seen[v] = true
		for _, r := range *v.Referrers() {
			switch x := r.(type) {
			case *ssa.MapUpdate:
				if x.Map != v {
					continue
				}
				n++
				k, isK := x.Key.(*ssa.Extract)
				val, isV := x.Value.(*ssa.Extract)
				if !isK || !isV || k.Tuple != val.Tuple || k.Index != 1 || val.Index != 2 {
					ok = false
					continue
				}
				nx, isN := k.Tuple.(*ssa.Next)
				if !isN {
					ok = false
					continue
				}
				rg, isR := nx.Iter.(*ssa.Range)
				if !isR {
					ok = false
					continue
				}
				if src != nil && src != rg.X {
					ok = false
				}
				src = rg.X
			case *ssa.Phi:
				visit(x, seen)
			case *ssa.ChangeType:
				visit(x, seen)
			}
		}
	}
	visit(mk, map[ssa.Value]bool{})
	if !ok || n == 0 {
		return nil
	}
	return src
}
