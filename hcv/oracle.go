package hcv

// Oracle tables (DESIGN §2), transcribed from the RFCs named in the properties, not from the code.

// O-HOP: RFC 9110 §7.6.1, RFC 9111 §3.1.
var oracleHop = []string{"Connection", "Proxy-Connection", "Keep-Alive", "TE", "Transfer-Encoding", "Upgrade", "Proxy-Authenticate", "Proxy-Authentication-Info", "Proxy-Authorization"}

// O-SIE: RFC 5861 §4 as quoted in C13.
var oracleSIE = []int64{500, 502, 503, 504}

// O-SAFE: IANA HTTP method registry, "safe = yes".
var oracleSafe = []string{"GET", "HEAD", "OPTIONS", "TRACE", "PROPFIND", "REPORT", "SEARCH", "QUERY", "PRI"}

// A sample of registered unsafe methods and unknown tokens that must all classify as unsafe.
var oracleUnsafeProbes = []string{"POST", "PUT", "DELETE", "PATCH", "PROPPATCH", "MKCOL", "COPY", "MOVE", "LOCK", "UNLOCK", "MKCALENDAR", "ACL", "BIND", "MERGE", "CONNECT", "FOO", "get", "Post", ""}

// O-UNRES: RFC 3986 §2.3.
func oracleUnreserved(b int64) bool {
	switch {
	case b >= 'A' && b <= 'Z', b >= 'a' && b <= 'z', b >= '0' && b <= '9':
		return true
	case b == '-' || b == '.' || b == '_' || b == '~':
		return true
	}
	return false
}

// O-PORT.
var oraclePort = map[string]string{"http": "80", "https": "443"}

// O-VALID.
var oracleValidators = map[string]string{"If-None-Match": "ETag", "If-Modified-Since": "Last-Modified"}

// O-STATUS: from-store statuses carry the legacy marker, origin statuses do not.
var oracleStatus = map[string]bool{"HIT": true, "STALE": true, "REVALIDATED": true, "MISS": false, "BYPASS": false}

// O-LIST: fields whose value is a list that may span several field lines and that this code base interprets.
var oracleListFields = []string{"Cache-Control", "Vary", "Connection"}

// O-HEUR: status codes that are heuristically cacheable by default, RFC 9110 §15.1 ("200, 203, 204, 206, 300, 301, 308,
// 404, 405, 410, 414, and 501"). A cache may use fewer; it must not assign a heuristic lifetime to any other status.
var oracleHeuristic = []int64{200, 203, 204, 206, 300, 301, 308, 404, 405, 410, 414, 501}
