package hcv

import (
	"fmt"
	"go/token"
	"go/types"
	"sort"
	"strings"

	"golang.org/x/tools/go/ssa"
)

func init() {
	register(&Property{
		ID:    "C16",
		Title: "Concurrent use of one transport is race-free; responses are caller-owned",
		Decides: "nothing handed to a goroutine spawned on the RoundTrip path can reach an object returned to the caller; request headers and fields are written only on clones; " +
			"transport fields are written only during construction; package-level variables are written only in initialisers or inside sync.Once; backend struct fields are " +
			"written only while opening and guarded maps only under their lock; spawned closures hand results over through channels only; objects mutated in place are decoded per call.",
		NotDecided: "interleaving semantics beyond ownership and lock discipline ('right resource, right variant' under concurrency); races inside upstream, the standard library or third-party backends.",
		Rules: []Rule{
			{ID: "C16.1", Desc: "spawn/return disjointness", Run: ruleC16_1, MinSites: 1},
			{ID: "C16.2", Desc: "request untouched", Run: func(c *Ctx) { ruleRequestUntouched(c, "C16.2") }, MinSites: 2},
			{ID: "C16.3", Desc: "transport is write-once", Run: ruleC16_3, MinSites: 3},
			{ID: "C16.4", Desc: "globals written only in init / sync.Once", Run: ruleC16_4, MinSites: 3},
			{ID: "C16.5", Desc: "backend state: lock discipline, fields written only while opening", Run: func(c *Ctx) { ruleC14_1(c2(c, "C16.5")); ruleC16_5(c) }, MinSites: 3},
			{ID: "C16.6", Desc: "goroutine hand-off through channels only", Run: ruleC16_6, MinSites: 2},
			{ID: "C16.7", Desc: "in-place mutation only on per-request objects", Run: ruleC16_7, MinSites: 1},
			{ID: "C16.8", Desc: "the memory backend never hands out or keeps a caller-visible buffer", Run: func(c *Ctx) { ruleC14_2(c); renameRule(c, "C14.2", "C16.8") }, MinSites: 2},
			{ID: "C16.9", Desc: "no slice of a pooled object's storage outlives its return to the pool", Run: ruleC16_9, MinSites: 0},
			{ID: "C16.10", Desc: "a response object built by copying another one gets a header map of its own", Run: ruleC16_10, MinSites: 0},
			{ID: "C16.11", Desc: "the background revalidation works on a copy of the caller's request", Run: func(c *Ctx) { ruleC20_6(c); renameRule(c, "C20.6", "C16.11") }, MinSites: 1},
			{ID: "C16.12", Desc: "the value slices of the caller's request header are never written", Run: func(c *Ctx) { ruleCallerHeaderValuesUntouched(c, "C16.12") }, MinSites: 1},
			{ID: "C16.13", Desc: "the body handed to the caller is not read again by the cache", Run: func(c *Ctx) { ruleBodyHandedBackLast(c, "C16.13") }, MinSites: 1},
			{ID: "C16.14", Desc: "the key function does not write through the caller's URL", Run: func(c *Ctx) { ruleKeyFunctionLeavesURLAlone(c, "C16.14") }, MinSites: 1},
			{ID: "C16.15", Desc: "a background 304 is never merged into an entry another exchange stored meanwhile (fields of one representation over the body of another)", Run: func(c *Ctx) { ruleBackground304SelectsEntry(c, "C16.15") }, MinSites: 1},
			{ID: "C16.16", Desc: "parsed directive maps are not shared between exchanges (a memoised map is read and written by concurrent calls)", Run: func(c *Ctx) { ruleDirectiveMapsPrivate(c, "C16.16") }, MinSites: 2},
			{ID: "C16.17", Desc: "no append into a package-level slice on the exchange (log records built in shared memory)", Run: func(c *Ctx) { ruleNoAppendToSharedSlice(c, "C16.17") }, MinSites: 1},
			{ID: "C16.18", Desc: "a foreground 304 is merged into the entry it was asked about (no re-read between the request and the merge)", Run: func(c *Ctx) { ruleValidatedEntryIsSentEntry(c, "C16.18") }, MinSites: 1},
			{ID: "C16.19", Desc: "a write of a call that has returned cannot land later (the gate holds its lock across the step)", Run: func(c *Ctx) { ruleAbandonedNotPublished(c, "C16.19") }, MinSites: 1},
			{ID: "C16.20", Desc: "the matcher's position refers to the caller's list (right variant for every caller)", Run: func(c *Ctx) { ruleMatcherIndexesCallersSlice(c, "C16.20"); ruleMatcherIndex(c, "C16.20") }, MinSites: 2},
		},
	})
}

// c2 returns c itself; rule ids inside the shared lock rule are rewritten afterwards.
func c2(c *Ctx, rule string) *Ctx { return c }

// accessPath: (root, field path) of a pointer-like value, forwarding loads of single-store cells.
type accPath struct {
	root ssa.Value
	path []string
}

func (an *Analysis) accessPath(v ssa.Value) accPath {
	var path []string
	for i := 0; i < 12; i++ {
		v = an.canon(v)
		switch x := v.(type) {
		case *ssa.UnOp:
			if x.Op == token.MUL {
				v = x.X
				continue
			}
			return accPath{v, path}
		case *ssa.FieldAddr:
			path = append([]string{fieldName(x.X.Type(), x.Field)}, path...)
			v = x.X
		case *ssa.Field:
			path = append([]string{fieldName(x.X.Type(), x.Field)}, path...)
			v = x.X
		case *ssa.ChangeType:
			v = x.X
		case *ssa.MakeInterface:
			v = x.X
		case *ssa.FreeVar:
			bs := an.P.freeVarBindings(x)
			if len(bs) == 1 {
				v = bs[0]
				if al, ok := v.(*ssa.Alloc); ok {
					sts := an.P.cellStores(al)
					if len(sts) == 1 {
						v = sts[0].Val
					}
				}
				continue
			}
			return accPath{v, path}
		default:
			return accPath{v, path}
		}
	}
	return accPath{v, path}
}

func prefixOf(a, b []string) bool {
	if len(a) > len(b) {
		return false
	}
	for i := range a {
		if a[i] != b[i] {
			return false
		}
	}
	return true
}

func sharesMutable(t types.Type) bool {
	switch t.Underlying().(type) {
	case *types.Pointer, *types.Map, *types.Slice, *types.Chan, *types.Interface:
		return true
	}
	return false
}

func ruleC16_1(c *Ctx) {
	n := 0
	var fns []*ssa.Function
	for fn := range c.A.Reach {
		fns = append(fns, fn)
	}
	sort.Slice(fns, func(i, j int) bool { return FuncName(fns[i]) < FuncName(fns[j]) })
	for _, fn := range fns {
		var gos []*ssa.Go
		instrsOf(fn, func(in ssa.Instruction) {
			if g, ok := in.(*ssa.Go); ok {
				gos = append(gos, g)
			}
		})
		if len(gos) == 0 {
			continue
		}
		// values returned by fn
		var rets []accPath
		var retInstr []ssa.Instruction
		instrsOf(fn, func(in ssa.Instruction) {
			if r, ok := in.(*ssa.Return); ok {
				for _, rv := range r.Results {
					if sharesMutable(rv.Type()) && !isNilConst(rv) {
						rets = append(rets, c.An.accessPath(rv))
						retInstr = append(retInstr, in)
					}
				}
			}
		})
		for _, g := range gos {
			n++
			where := c.P.ShortName(fn) + "@" + c.P.InstrPos(g)
			var handed []ssa.Value
			handed = append(handed, g.Call.Args...)
			if mc, ok := g.Call.Value.(*ssa.MakeClosure); ok {
				handed = append(handed, mc.Bindings...)
			}
			if g.Call.IsInvoke() {
				handed = append(handed, g.Call.Value)
			}
			bad := ""
			for _, h := range handed {
				if !sharesMutable(h.Type()) {
					continue
				}
				hp := c.An.accessPath(h)
				// the transport itself is immutable after construction (C16.3)
				if isPtrToNamed(hp.root.Type(), c.A.TransportT) && len(hp.path) == 0 {
					continue
				}
				// closure cells: a binding that is a cell holding a value
				if al, ok := hp.root.(*ssa.Alloc); ok && len(hp.path) == 0 {
					sts := c.P.cellStores(al)
					if len(sts) == 1 {
						hp = c.An.accessPath(sts[0].Val)
					}
				}
				for i, rp := range rets {
					if rp.root == hp.root && (prefixOf(hp.path, rp.path) || prefixOf(rp.path, hp.path)) {
						bad = fmt.Sprintf("the goroutine receives `%s`%s and the function returns `%s`%s at %s (same root `%s`)",
							h.Name(), pathStr(hp.path), retOperand(retInstr[i]), pathStr(rp.path), c.P.InstrPos(retInstr[i]), hp.root.Name())
					}
				}
			}
			desc := "nothing handed to a goroutine can reach an object returned to the caller"
			key := "spawn-return-disjoint fn=" + c.P.ShortName(fn)
			if bad != "" {
				c.Fail("C16.1", key, desc, where+": "+bad+". Witness: the background revalidation merges 304 headers into (or re-marks) the response the caller is reading: concurrent map write", where)
			} else {
				c.Pass("C16.1", key, desc, where)
			}
		}
	}
	if n == 0 {
		c.Undecided("C16.1", "vacuity", "a go statement exists on the RoundTrip path", "none found")
	}
}

func pathStr(p []string) string {
	if len(p) == 0 {
		return ""
	}
	return "." + strings.Join(p, ".")
}

func retOperand(in ssa.Instruction) string {
	if r, ok := in.(*ssa.Return); ok && len(r.Results) > 0 {
		return r.Results[0].Name()
	}
	return "?"
}

func ruleC16_3(c *Ctx) {
	st, ok := c.A.TransportT.Underlying().(*types.Struct)
	if !ok {
		return
	}
	n := 0
	bad := 0
	var sites []string
	for i := 0; i < st.NumFields(); i++ {
		for _, s := range c.P.StoresTo(c.A.TransportT, i) {
			fn := s.Parent()
			n++
			where := fmt.Sprintf("%s@%s .%s", c.P.ShortName(fn), c.P.InstrPos(s), st.Field(i).Name())
			if c.A.Reach[fn] {
				bad++
				c.Fail("C16.3", "transport-field-write fn="+c.P.ShortName(fn), "transport fields are written only during construction", where+": written on the RoundTrip path; concurrent RoundTrips race on it")
				continue
			}
			sites = append(sites, where)
		}
	}
	sort.Strings(sites)
	if n == 0 {
		c.Undecided("C16.3", "vacuity", "the constructor stores transport fields", "no store found")
	} else if bad == 0 {
		c.Pass("C16.3", "transport-write-once", "every store to a transport field is outside the code reachable from RoundTrip (constructor and options)", sites...)
	}
	// no field of the transport holds request-scoped mutable state: types are interfaces, a duration and a logger pointer
	for i := 0; i < st.NumFields(); i++ {
		switch st.Field(i).Type().Underlying().(type) {
		case *types.Map, *types.Slice:
			c.Fail("C16.3", "transport-field-kind ."+st.Field(i).Name(), "the transport holds no map/slice state of its own", "field "+st.Field(i).Name()+" is a "+st.Field(i).Type().String())
		}
	}
}

// inOnceOrInit: fn is a package initialiser or lexically inside a closure handed to (*sync.Once).Do.
func (c *Ctx) inOnceOrInit(fn *ssa.Function) bool {
	for f := fn; f != nil; f = f.Parent() {
		if f.Name() == "init" || strings.HasPrefix(f.Name(), "init#") {
			return true
		}
		if f.Parent() != nil {
			// is f passed to sync.Once.Do in its parent?
			isOnce := false
			instrsOf(f.Parent(), func(in ssa.Instruction) {
				cc := callOf(in)
				if cc == nil || !callIsMethod(cc, "sync", "Once", "Do") {
					return
				}
				for _, a := range cc.Args {
					if mc, ok := a.(*ssa.MakeClosure); ok && mc.Fn == f {
						isOnce = true
					}
					if a == ssa.Value(f) {
						isOnce = true
					}
				}
			})
			if isOnce {
				return true
			}
		}
	}
	return false
}

func globalRoot(v ssa.Value) *ssa.Global {
	for i := 0; i < 10; i++ {
		switch x := v.(type) {
		case *ssa.Global:
			return x
		case *ssa.FieldAddr:
			v = x.X
		case *ssa.IndexAddr:
			v = x.X
		case *ssa.UnOp:
			if x.Op != token.MUL {
				return nil
			}
			v = x.X
		default:
			return nil
		}
	}
	return nil
}

func ruleC16_4(c *Ctx) {
	n := 0
	bad := 0
	var sites []string
	for _, fn := range c.P.RepoFuncs {
		if isTestOnly(c, fn) || len(fn.Blocks) == 0 {
			continue
		}
		instrsOf(fn, func(in ssa.Instruction) {
			var g *ssa.Global
			what := ""
			switch x := in.(type) {
			case *ssa.Store:
				g = globalRoot(x.Addr)
				what = "store"
			case *ssa.MapUpdate:
				g = globalRoot(x.Map)
				what = "map update"
			case ssa.CallInstruction:
				cc := x.Common()
				if b, ok := cc.Value.(*ssa.Builtin); ok && b.Name() == "delete" && len(cc.Args) > 0 {
					g = globalRoot(cc.Args[0])
					what = "delete"
				}
			}
			// a map that may BE a package-level map: handed out by a function that returns the global itself on some path
			if g == nil {
				var m ssa.Value
				switch x := in.(type) {
				case *ssa.MapUpdate:
					m = x.Map
				case ssa.CallInstruction:
					cc := x.Common()
					if b, ok := cc.Value.(*ssa.Builtin); ok && (b.Name() == "delete" || b.Name() == "clear") && len(cc.Args) > 0 {
						if _, isMap := cc.Args[0].Type().Underlying().(*types.Map); isMap {
							m = cc.Args[0]
						}
					}
				}
				if m != nil {
					c.P.TraceBack(m, TraceOpts{NoParams: true, NoHeapFields: true}, func(v ssa.Value, _ []int) bool {
						if u, ok := v.(*ssa.UnOp); ok && u.Op == token.MUL {
							if gg, ok := u.X.(*ssa.Global); ok {
								g = gg
								what += " (through a value that may be the package-level map itself)"
								return false
							}
						}
						return true
					})
				}
			}
			if g == nil || g.Pkg == nil || !c.P.IsRepoPkgPath(g.Pkg.Pkg.Path()) {
				return
			}
			// a load through a pointer held in the global (e.g. *defaultRegistry) is the pointee, not the global
			if st, ok := in.(*ssa.Store); ok {
				if _, viaLoad := st.Addr.(*ssa.FieldAddr); viaLoad {
					if fa := st.Addr.(*ssa.FieldAddr); fa != nil {
						if u, ok := fa.X.(*ssa.UnOp); ok && u.Op == token.MUL {
							return // field of the object the global points to: covered by lock discipline (C14.1)
						}
					}
				}
			}
			if mu, ok := in.(*ssa.MapUpdate); ok {
				if u, ok := mu.Map.(*ssa.UnOp); ok {
					if fa, ok := u.X.(*ssa.FieldAddr); ok {
						if uu, ok := fa.X.(*ssa.UnOp); ok && uu.Op == token.MUL {
							return
						}
					}
				}
			}
			n++
			where := fmt.Sprintf("%s@%s %s of %s", c.P.ShortName(fn), c.P.InstrPos(in), what, g.Name())
			if c.inOnceOrInit(fn) {
				sites = append(sites, where)
				return
			}
			bad++
			c.Fail("C16.4", "global-write var="+g.Name()+" fn="+c.P.ShortName(fn), "package-level variables are written only in initialisers or inside sync.Once", where+": lazy initialisation without Once races between concurrent RoundTrips")
		})
	}
	sort.Strings(sites)
	if n == 0 {
		c.Undecided("C16.4", "vacuity", "package-level variables are initialised somewhere", "no global write found")
	} else if bad == 0 {
		if len(sites) > 12 {
			sites = append(sites[:12], fmt.Sprintf("... %d more", len(sites)-12))
		}
		c.Pass("C16.4", "globals-write-once", "every write to a package-level variable is in a package initialiser or inside a sync.Once.Do closure", sites...)
	}
	// the lazily initialised tables are read only after the Once-guarded initialiser ran
	for _, fn := range c.P.RepoFuncs {
		if isTestOnly(c, fn) || fn.Parent() != nil {
			continue
		}
		callsOnce := ""
		instrsOf(fn, func(in ssa.Instruction) {
			if cc := callOf(in); cc != nil && callIsMethod(cc, "sync", "Once", "Do") {
				callsOnce = c.P.ShortName(fn)
			}
		})
		if callsOnce == "" {
			continue
		}
		// every function that reads a map field of the Once-holding global calls fn first
		var onceGlobal *ssa.Global
		instrsOf(fn, func(in ssa.Instruction) {
			if cc := callOf(in); cc != nil && callIsMethod(cc, "sync", "Once", "Do") {
				onceGlobal = globalRoot(cc.Args[0])
			}
		})
		if onceGlobal == nil {
			continue
		}
		for _, rd := range c.P.RepoFuncs {
			if isTestOnly(c, rd) || rd == fn || lexicallyInside(rd, fn) {
				continue
			}
			var firstRead ssa.Instruction
			instrsOf(rd, func(in ssa.Instruction) {
				if fa, ok := in.(*ssa.FieldAddr); ok && fa.X == ssa.Value(onceGlobal) && firstRead == nil {
					if _, isMap := derefType(fa.Type()).Underlying().(*types.Map); isMap {
						firstRead = in
					}
				}
			})
			if firstRead == nil {
				continue
			}
			pr := c.An.Prune(rd, nil)
			r := c.An.MustPass(pr, func(in ssa.Instruction) bool { return in == firstRead }, func(in ssa.Instruction) bool {
				cc := callOf(in)
				return cc != nil && cc.StaticCallee() == fn
			})
			if r.OK {
				c.Pass("C16.4", "once-before-read fn="+c.P.ShortName(rd), "the Once-guarded initialiser dominates every read of the lazily built tables", c.P.ShortName(rd))
			} else {
				c.Fail("C16.4", "once-before-read fn="+c.P.ShortName(rd), "the Once-guarded initialiser dominates every read of the lazily built tables", c.P.InstrPos(firstRead)+": table read without the initialiser call before it")
			}
		}
	}
}

func ruleC16_5(c *Ctx) {
	// rename the obligations produced by the shared lock rule
	for _, o := range c.Obs {
		if o.Rule == "C14.1" {
			o.Rule = "C16.5"
			o.Key = strings.Replace(o.Key, "C14.1 ", "C16.5 ", 1)
		}
	}
	impls := c.connImpls()
	for _, t := range impls {
		st, ok := t.Underlying().(*types.Struct)
		if !ok {
			continue
		}
		// methods on the RoundTrip path
		onPath := map[*ssa.Function]bool{}
		for _, m := range []string{"Get", "Set", "Delete", "Keys"} {
			if f := c.methodOf(t, m); f != nil {
				for _, g := range c.reachableFrom(f) {
					onPath[g] = true
				}
			}
		}
		n := 0
		bad := 0
		var sites []string
		for i := 0; i < st.NumFields(); i++ {
			if typeIs(st.Field(i).Type(), "sync", "Mutex") || typeIs(st.Field(i).Type(), "sync", "RWMutex") {
				continue
			}
			for _, s := range c.P.StoresTo(t, i) {
				if isTestOnly(c, s.Parent()) {
					continue
				}
				n++
				where := fmt.Sprintf("%s@%s .%s", c.P.ShortName(s.Parent()), c.P.InstrPos(s), st.Field(i).Name())
				if onPath[s.Parent()] {
					bad++
					c.Fail("C16.5", "backend-field-write type="+t.Obj().Name()+" fn="+c.P.ShortName(s.Parent()), "backend struct fields are written only while opening", where+": written from Get/Set/Delete/Keys; concurrent operations race on it")
				} else {
					sites = append(sites, where)
				}
			}
		}
		if bad == 0 {
			c.Pass("C16.5", "backend-write-once type="+t.Obj().Name(), "backend struct fields are written only while opening (constructor, options, initialise)", append(sites, fmt.Sprintf("%d stores", n))...)
		}
	}
}

func ruleC16_6(c *Ctx) {
	// goroutines spawned on the RoundTrip path and in the built-in backends' Conn methods
	scope := map[*ssa.Function]bool{}
	for fn := range c.A.Reach {
		scope[fn] = true
	}
	n := 0
	var fns []*ssa.Function
	for fn := range scope {
		fns = append(fns, fn)
	}
	sort.Slice(fns, func(i, j int) bool { return FuncName(fns[i]) < FuncName(fns[j]) })
	for _, fn := range fns {
		instrsOf(fn, func(in ssa.Instruction) {
			g, ok := in.(*ssa.Go)
			if !ok {
				return
			}
			mc, ok := g.Call.Value.(*ssa.MakeClosure)
			if !ok {
				return // a method/function call: arguments only (C16.1)
			}
			n++
			cf := mc.Fn.(*ssa.Function)
			where := c.P.ShortName(fn) + "@" + c.P.InstrPos(g)
			bad := ""
			for _, f := range append([]*ssa.Function{cf}, nestedClosures(cf)...) {
				instrsOf(f, func(i2 ssa.Instruction) {
					st, ok := i2.(*ssa.Store)
					if !ok {
						return
					}
					if fv, ok := st.Addr.(*ssa.FreeVar); ok {
						if strings.HasPrefix(fv.Name(), "jump$") {
							return
						}
						// is the cell also visible to the spawning function?
						for _, b := range c.P.freeVarBindings(fv) {
							if al, ok := b.(*ssa.Alloc); ok && al.Parent() == fn {
								bad = c.P.InstrPos(i2) + ": the spawned closure writes the captured variable `" + fv.Name() + "` of its parent"
							}
						}
					}
				})
			}
			desc := "a spawned closure hands its results over through channels, never through variables shared with its parent"
			if bad != "" {
				c.Fail("C16.6", "goroutine-shared-var fn="+c.P.ShortName(fn), desc, where+": "+bad)
			} else {
				c.Pass("C16.6", "goroutine-handoff fn="+c.P.ShortName(fn), desc, where)
			}
		})
	}
	if n == 0 {
		c.Undecided("C16.6", "vacuity", "spawned closures exist on the RoundTrip path", "none found")
	}
}

func nestedClosures(fn *ssa.Function) []*ssa.Function {
	var out []*ssa.Function
	for _, a := range fn.AnonFuncs {
		out = append(out, a)
		out = append(out, nestedClosures(a)...)
	}
	return out
}

func ruleC16_7(c *Ctx) {
	n := 0
	for fn := range c.A.Reach {
		instrsOf(fn, func(in ssa.Instruction) {
			cc := callOf(in)
			if cc == nil {
				return
			}
			sc := cc.StaticCallee()
			if sc == nil {
				return
			}
			name := sc.String()
			if o := sc.Origin(); o != nil {
				name = o.String()
			}
			if !impureStd[name] || strings.HasPrefix(name, "(net/http.Header)") {
				return
			}
			n++
			where := c.P.ShortName(fn) + "@" + c.P.InstrPos(in) + " " + name
			okRoots := true
			why := ""
			for _, r := range c.P.Roots(cc.Args[0], TraceOpts{}) {
				switch x := r.(type) {
				case *ssa.MakeSlice, *ssa.Alloc, *ssa.Const:
				case *ssa.Call:
					// fresh results of library constructors / decoders
					_ = x
				case *ssa.Extract:
				case *ssa.Global:
					okRoots, why = false, "rooted at package variable "+x.Name()
				case *ssa.UnOp:
					if g := globalRoot(x.X); g != nil {
						okRoots, why = false, "rooted at package variable "+g.Name()
					}
					if fa, ok := x.X.(*ssa.FieldAddr); ok && isPtrToNamed(fa.X.Type(), c.A.TransportT) {
						okRoots, why = false, "rooted at a transport field"
					}
				case *ssa.Parameter:
					if len(c.P.Callers(x.Parent())) == 0 && !strings.Contains(x.Parent().Name(), "$") {
						// exported entry without callers in the repo
					}
				}
			}
			// the index slice must come from the per-call decoder
			if okRoots {
				c.Pass("C16.7", "in-place-mutation fn="+c.P.ShortName(fn), "slices sorted/compacted in place are per-call objects (decoded or allocated in this exchange)", where)
			} else {
				c.Fail("C16.7", "in-place-mutation fn="+c.P.ShortName(fn), "slices sorted/compacted in place are per-call objects (decoded or allocated in this exchange)", where+": "+why+"; concurrent RoundTrips sort the same slice")
			}
		})
	}
	if n == 0 {
		c.Undecided("C16.7", "vacuity", "in-place mutations exist on the path (variant sort)", "none found")
	}
	// the decoder allocates a fresh slice per call: json.Unmarshal into a local
	if ri := c.A.F("readIndex"); ri != nil {
		fresh := false
		instrsOf(ri, func(in ssa.Instruction) {
			if cc := callOf(in); cc != nil && callIsPkgFunc(cc, "encoding/json", "Unmarshal") {
				for _, r := range c.P.Roots(cc.Args[1], TraceOpts{NoParams: true}) {
					if al, ok := r.(*ssa.Alloc); ok && al.Parent() == ri {
						fresh = true
					}
				}
			}
		})
		if fresh {
			c.Pass("C16.7", "index-decoded-per-call", "the variant index is decoded into a fresh local on every call", c.P.ShortName(ri))
		} else {
			c.Fail("C16.7", "index-decoded-per-call", "the variant index is decoded into a fresh local on every call", c.P.ShortName(ri)+": decode target is not a local of the decoder")
		}
	}
}

// ruleC16_9: an object handed back to a sync.Pool may be taken and overwritten by any concurrent RoundTrip at once. In
// a function that puts an object back (directly or deferred), every []byte it returns must own its storage (fresh
// allocation or copy), not be a view obtained from the pooled object.
func ruleC16_9(c *Ctx) {
	desc := "a function that returns an object to a sync.Pool does not return a slice that shares the object's storage"
	n := 0
	var fns []*ssa.Function
	for _, fn := range c.P.RepoFuncs {
		if isTestOnly(c, fn) || len(fn.Blocks) == 0 {
			continue
		}
		fns = append(fns, fn)
	}
	for _, fn := range fns {
		var pooled []ssa.Value
		instrsOf(fn, func(in ssa.Instruction) {
			if cc := callOf(in); cc != nil && callIsMethod(cc, "sync", "Pool", "Put") {
				_, args := recvAndArgs(cc)
				pooled = append(pooled, args[0])
			}
		})
		if len(pooled) == 0 {
			continue
		}
		n++
		bad := ""
		instrsOf(fn, func(in ssa.Instruction) {
			r, ok := in.(*ssa.Return)
			if !ok {
				return
			}
			for i := range r.Results {
				v := c.An.RetVal(r, i)
				sl, isSl := v.Type().Underlying().(*types.Slice)
				if !isSl || !isBasicKind(sl.Elem(), types.Byte) && !isBasicKind(sl.Elem(), types.Uint8) {
					continue
				}
				for _, o := range c.sliceBacking(v) {
					if o != "fresh" && o != "nil" {
						bad = fmt.Sprintf("%s: returned slice has backing `%s`", c.P.InstrPos(r), o)
					}
				}
			}
		})
		where := c.P.ShortName(fn)
		if bad != "" {
			c.Fail("C16.9", "pooled-storage-escapes fn="+where, desc, bad+" while the object goes back to the pool; a second RoundTrip marshalling another response overwrites the bytes still being written to the store, so one URI's entry holds another resource's body")
		} else {
			c.Pass("C16.9", "pooled-storage-escapes fn="+where, desc, where)
		}
	}
	if n == 0 {
		c.Pass("C16.9", "no-pool", desc, fmt.Sprintf("%d repo functions scanned: no sync.Pool.Put", len(fns)))
	}
}

// ruleC16_10: a response handed to a caller is the caller's: callers delete hop-by-hop fields from it, add fields,
// and do so concurrently. A response object allocated on the exchange and filled by copying a whole http.Response value
// (`*resp = *tmpl`) shares the template's Header map unless the Header field is given a fresh map afterwards.
func ruleC16_10(c *Ctx) {
	desc := "no response is built as a shallow copy of another response (shared Header map)"
	n := 0
	var fns []*ssa.Function
	for fn := range c.A.Reach {
		fns = append(fns, fn)
	}
	sort.Slice(fns, func(i, j int) bool { return FuncName(fns[i]) < FuncName(fns[j]) })
	for _, fn := range fns {
		instrsOf(fn, func(in ssa.Instruction) {
			st, ok := in.(*ssa.Store)
			if !ok {
				return
			}
			al, ok := st.Addr.(*ssa.Alloc)
			if !ok || !isHTTPResponsePtr(al.Type()) {
				return
			}
			// whole-value store of a loaded response
			ld, ok := st.Val.(*ssa.UnOp)
			if !ok || ld.Op != token.MUL || !isHTTPResponsePtr(ld.X.Type()) {
				return
			}
			// only copies that are handed out (returned); a scratch copy used for serialisation is nobody else's
			returned := false
			if refs := al.Referrers(); refs != nil {
				for _, r := range *refs {
					if _, isRet := r.(*ssa.Return); isRet {
						returned = true
					}
				}
			}
			if !returned {
				return
			}
			n++
			fresh := false
			if refs := al.Referrers(); refs != nil {
				for _, r := range *refs {
					fa, ok := r.(*ssa.FieldAddr)
					if !ok || fieldName(fa.X.Type(), fa.Field) != "Header" || fa.Referrers() == nil {
						continue
					}
					for _, u := range *fa.Referrers() {
						s2, ok := u.(*ssa.Store)
						if !ok || s2.Addr != ssa.Value(fa) {
							continue
						}
						switch v := s2.Val.(type) {
						case *ssa.MakeMap:
							fresh = true
						case *ssa.Call:
							if callIsMethod(&v.Call, "net/http", "Header", "Clone") || callIsPkgFunc(&v.Call, "maps", "Clone") {
								fresh = true
							}
						}
					}
				}
			}
			where := c.P.ShortName(fn) + "@" + c.P.InstrPos(in)
			if fresh {
				c.Pass("C16.10", "response-copy-owns-header fn="+c.P.ShortName(fn), desc, where)
			} else {
				c.Fail("C16.10", "response-copy-owns-header fn="+c.P.ShortName(fn), desc, where+": the copy keeps the source's Header map; every response made this way (e.g. each synthesised 504) shares one map, so one caller's edits show up in other callers' responses and concurrent callers race on it")
			}
		})
	}
	if n == 0 {
		c.Pass("C16.10", "no-response-copy", desc, fmt.Sprintf("%d functions scanned: no whole-value copy of an http.Response", len(fns)))
	}
}
