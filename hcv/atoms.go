package hcv

import (
	"fmt"
	"go/token"
	"go/types"
	"net/http"
	"os"
	"sort"
	"strings"

	"golang.org/x/tools/go/ssa"
)

// Atom is a named branch predicate (E2 of DESIGN.md).
type Atom struct {
	Key string    // canonical name, e.g. "rq.only-if-cached", "rs.no-cache.ok", "fr.stale", "nil:err", "pred:canStore", "cmp:status==304"
	Val ssa.Value // the value the predicate is about (error value, response value, ...), if any
	Op  token.Token
	K   int64  // constant compared with (cmp atoms)
	S   string // string constant compared with
}

func (a *Atom) String() string { return a.Key }

// Analysis bundles program, anchors and caches shared by the engines.
type Analysis struct {
	P *Prog
	A *Anchors

	atomCache   map[ssa.Value]*atomRes
	classCache  map[ssa.Value]string
	maySum      map[string]map[*ssa.Function]int8
	mustSum     map[string]map[*ssa.Function]int8
	respKind    map[ssa.Value]map[string]bool
	statusVals  map[*ssa.Global][2]string
	statusMemo  map[*ssa.Function][]string // statusesAlwaysApplied (per analysis: mutants run in parallel)
	helperDepth int                        // nesting of boolean-helper evaluation in BoolUnder
}

type atomRes struct {
	a   *Atom
	neg bool
}

func NewAnalysis(p *Prog, a *Anchors) *Analysis {
	return &Analysis{P: p, A: a, atomCache: map[ssa.Value]*atomRes{}, classCache: map[ssa.Value]string{},
		maySum: map[string]map[*ssa.Function]int8{}, mustSum: map[string]map[*ssa.Function]int8{}, respKind: map[ssa.Value]map[string]bool{}}
}

// HeaderClass classifies an http.Header value by where it comes from:
// "rq" (header of a request), "rs" (header of a stored entry's response), "up" (header of an upstream response),
// "mixed"/"?" otherwise.
func (an *Analysis) HeaderClass(h ssa.Value) string {
	classes := map[string]bool{}
	an.P.TraceBack(h, TraceOpts{}, func(v ssa.Value, path []int) bool {
		if u, ok := v.(*ssa.UnOp); ok && u.Op == token.MUL {
			if fa, ok := u.X.(*ssa.FieldAddr); ok {
				bt := fa.X.Type()
				switch {
				case isHTTPRequestPtr(bt) && isHTTPHeader(u.Type()):
					classes["rq"] = true
					return false
				case isHTTPResponsePtr(bt) && isHTTPHeader(u.Type()):
					for k := range an.ResponseKinds(fa.X) {
						switch k {
						case "stored":
							classes["rs"] = true
						case "upstream":
							classes["up"] = true
						default:
							classes["?"] = true
						}
					}
					return false
				}
			}
		}
		if c, ok := v.(*ssa.Call); ok && callIsMethod(&c.Call, "net/http", "Header", "Clone") {
			r, _ := recvAndArgs(&c.Call)
			classes[an.HeaderClass(r)] = true
			return false
		}
		return true
	})
	return oneClass(classes)
}

func oneClass(m map[string]bool) string {
	if len(m) == 1 {
		for k := range m {
			return k
		}
	}
	if len(m) == 0 {
		return "?"
	}
	ks := make([]string, 0, len(m))
	for k := range m {
		ks = append(ks, k)
	}
	sort.Strings(ks)
	return "mixed(" + strings.Join(ks, ",") + ")"
}

// ResponseKinds classifies a *http.Response value: "stored" (loaded from an entry's Data field),
// "upstream" (result of an upstream RoundTrip), "synth" (http.ReadResponse outside the entry parser), "nil", "?".
func (an *Analysis) ResponseKinds(r ssa.Value) map[string]bool {
	if k, ok := an.respKind[r]; ok {
		return k
	}
	out := map[string]bool{}
	an.respKind[r] = out
	an.P.TraceBack(r, TraceOpts{}, func(v ssa.Value, path []int) bool {
		switch x := v.(type) {
		case *ssa.UnOp:
			if x.Op == token.MUL {
				if fa, ok := x.X.(*ssa.FieldAddr); ok && isPtrToNamed(fa.X.Type(), an.A.EntryT) && fa.Field == an.A.EntryData {
					out["stored"] = true
					return false
				}
			}
		case *ssa.Extract:
			if c, ok := x.Tuple.(*ssa.Call); ok {
				if an.IsUpstreamCall(&c.Call) {
					out["upstream"] = true
					return false
				}
				if callIsPkgFunc(&c.Call, "net/http", "ReadResponse") {
					out["synth"] = true
					return false
				}
				if len(an.P.RepoCallees(c)) == 0 {
					out["?"] = true
				}
			}
		case *ssa.Const:
			if x.Value == nil {
				out["nil"] = true
			}
		case *ssa.Alloc:
			out["alloc"] = true
		case *ssa.Parameter:
			if len(an.P.Callers(x.Parent())) == 0 {
				out["?"] = true
			}
		}
		return true
	})
	return out
}

// IsUpstreamCall: an interface call of http.RoundTripper.RoundTrip (the origin call).
func (an *Analysis) IsUpstreamCall(c *ssa.CallCommon) bool {
	return c != nil && c.IsInvoke() && c.Method.Name() == "RoundTrip" && typeIs(c.Value.Type(), "net/http", "RoundTripper")
}

// DirClass classifies a directive-map value: "rq", "rs", "up", or mixed.
func (an *Analysis) DirClass(m ssa.Value) string {
	if c, ok := an.classCache[m]; ok {
		return c
	}
	an.classCache[m] = "?"
	if isNamed(m.Type(), an.A.ReqDirT) {
		an.classCache[m] = "rq"
		return "rq"
	}
	classes := map[string]bool{}
	an.P.TraceBack(m, TraceOpts{}, func(v ssa.Value, path []int) bool {
		switch x := v.(type) {
		case *ssa.Call:
			if sc := x.Call.StaticCallee(); sc != nil && (sc == an.A.F("parseResp") || sc == an.A.F("parseReq")) && len(x.Call.Args) == 1 {
				classes[an.HeaderClass(x.Call.Args[0])] = true
				return false
			}
		case *ssa.Const:
			return false // nil map: no directives, contributes nothing
		case *ssa.Parameter:
			if len(an.P.Callers(x.Parent())) == 0 {
				classes["?"] = true
			}
		}
		return true
	})
	c := oneClass(classes)
	an.classCache[m] = c
	return c
}

// AtomOf maps a boolean SSA value to (atom, negated). ok=false when the condition is not an atom.
func (an *Analysis) AtomOf(v ssa.Value) (*Atom, bool, bool) {
	if r, ok := an.atomCache[v]; ok {
		if r == nil {
			return nil, false, false
		}
		return r.a, r.neg, true
	}
	an.atomCache[v] = nil // cycle guard
	a, neg := an.atomOf(v, 0)
	if a == nil {
		return nil, false, false
	}
	an.atomCache[v] = &atomRes{a, neg}
	return a, neg, true
}

func (an *Analysis) atomOf(v ssa.Value, depth int) (*Atom, bool) {
	if depth > 6 {
		return nil, false
	}
	switch x := v.(type) {
	case *ssa.UnOp:
		if x.Op == token.NOT {
			a, n := an.atomOf(x.X, depth+1)
			return a, !n
		}
		if x.Op == token.MUL {
			// field load: Freshness.IsStale or a single-store cell
			if fa, ok := x.X.(*ssa.FieldAddr); ok {
				if isPtrToNamed(fa.X.Type(), an.A.FreshT) && fa.Field == an.A.FreshStale {
					return &Atom{Key: "fr.stale"}, false
				}
				if al, ok := fa.X.(*ssa.Alloc); ok {
					// member of a local struct cell (a spilled by-value parameter object or a composite literal)
					if srcs, ok := an.localFieldSources(al, []int{fa.Field}, 0); ok && len(srcs) > 0 {
						var got *Atom
						var gneg bool
						same := true
						for _, s := range srcs {
							a, n := an.atomOf(s, depth+1)
							if a == nil || got != nil && (got.Key != a.Key || gneg != n) {
								same = false
								break
							}
							got, gneg = a, n
						}
						if same && got != nil {
							return got, gneg
						}
					}
				}
				if n := namedOf(derefType(fa.X.Type())); n != nil {
					if st, ok := n.Underlying().(*types.Struct); ok && isBoolType(st.Field(fa.Field).Type()) {
						return &Atom{Key: "field:" + n.Obj().Name() + "." + st.Field(fa.Field).Name()}, false
					}
				}
			}
			if al, ok := x.X.(*ssa.Alloc); ok {
				sts := an.P.cellStores(al)
				if len(sts) == 1 {
					return an.atomOf(sts[0].Val, depth+1)
				}
			}
			if fv, ok := x.X.(*ssa.FreeVar); ok {
				bs := an.P.freeVarBindings(fv)
				if len(bs) == 1 {
					if al, ok := bs[0].(*ssa.Alloc); ok {
						sts := an.P.cellStores(al)
						if len(sts) == 1 {
							return an.atomOf(sts[0].Val, depth+1)
						}
					}
				}
			}
		}
	case *ssa.BinOp:
		return an.binAtom(x, depth)
	case *ssa.Field:
		// a member of a struct value (parameter object): the atom of what was stored into that member,
		// when every source agrees
		srcs, ok := an.fieldSources(x.X, []int{x.Field}, 0)
		if !ok || len(srcs) == 0 {
			return nil, false
		}
		var got *Atom
		var gneg bool
		for _, s := range srcs {
			a, n := an.atomOf(s, depth+1)
			if a == nil {
				return nil, false
			}
			if got == nil {
				got, gneg = a, n
			} else if got.Key != a.Key || gneg != n {
				return nil, false
			}
		}
		return got, gneg
	case *ssa.Call:
		return an.callAtom(x, -1)
	case *ssa.Extract:
		if c, ok := x.Tuple.(*ssa.Call); ok {
			return an.callAtom(c, x.Index)
		}
	case *ssa.Parameter:
		// a bool parameter inherits the atom of its argument when every call site passes the same atom
		fn := x.Parent()
		idx := paramIndex(fn, x)
		var got *Atom
		var gneg bool
		callers := an.P.Callers(fn)
		if len(callers) == 0 {
			return nil, false
		}
		for _, cs := range callers {
			arg := argForParam(cs.Instr.Common(), fn, idx)
			if arg == nil {
				return nil, false
			}
			a, n := an.atomOf(arg, depth+1)
			if a == nil {
				return nil, false
			}
			if got == nil {
				got, gneg = a, n
			} else if got.Key != a.Key || gneg != n {
				return nil, false
			}
		}
		return got, gneg
	case *ssa.Phi:
		// all incoming edges the same atom
		var got *Atom
		var gneg bool
		for _, e := range x.Edges {
			a, n := an.atomOf(e, depth+1)
			if a == nil {
				return nil, false
			}
			if got == nil {
				got, gneg = a, n
			} else if got.Key != a.Key || gneg != n {
				return nil, false
			}
		}
		return got, gneg
	}
	return nil, false
}

// fieldSources resolves member `path` of the struct value v to the values stored into it: through by-value
// parameters (every caller's argument), loads of local struct cells (member stores of the composite literal) and
// nested member selections. ok=false when some source cannot be resolved.
func (an *Analysis) fieldSources(v ssa.Value, path []int, depth int) ([]ssa.Value, bool) {
	if depth > 6 {
		return nil, false
	}
	if len(path) == 0 {
		return []ssa.Value{v}, true
	}
	switch x := v.(type) {
	case *ssa.Field:
		return an.fieldSources(x.X, append([]int{x.Field}, path...), depth+1)
	case *ssa.Parameter:
		fn := x.Parent()
		idx := paramIndex(fn, x)
		callers := an.P.Callers(fn)
		if len(callers) == 0 {
			return nil, false
		}
		var out []ssa.Value
		for _, cs := range callers {
			arg := argForParam(cs.Instr.Common(), fn, idx)
			if arg == nil {
				return nil, false
			}
			r, ok := an.fieldSources(arg, path, depth+1)
			if !ok {
				return nil, false
			}
			out = append(out, r...)
		}
		return out, true
	case *ssa.UnOp:
		if x.Op != token.MUL {
			return nil, false
		}
		if fa, ok := x.X.(*ssa.FieldAddr); ok {
			if al, ok := fa.X.(*ssa.Alloc); ok {
				return an.localFieldSources(al, append([]int{fa.Field}, path...), depth+1)
			}
			return nil, false
		}
		al, ok := x.X.(*ssa.Alloc)
		if !ok {
			return nil, false
		}
		return an.localFieldSources(al, path, depth+1)
	}
	return nil, false
}

// localFieldSources: the values stored into member `path` of the local struct cell al (whole-value stores and
// member stores).
func (an *Analysis) localFieldSources(al *ssa.Alloc, path []int, depth int) ([]ssa.Value, bool) {
	var out []ssa.Value
	okAll := true
	for _, st := range an.P.cellStores(al) {
		r, ok := an.fieldSources(st.Val, path, depth+1)
		if !ok {
			okAll = false
		}
		out = append(out, r...)
	}
	an.P.fieldStoresOfBase(al, path[0], func(sv ssa.Value) {
		r, ok := an.fieldSources(sv, path[1:], depth+1)
		if !ok {
			okAll = false
		}
		out = append(out, r...)
	})
	return out, okAll
}

func (an *Analysis) binAtom(x *ssa.BinOp, depth int) (*Atom, bool) {
	if x.Op != token.EQL && x.Op != token.NEQ && x.Op != token.LSS && x.Op != token.LEQ && x.Op != token.GTR && x.Op != token.GEQ {
		return nil, false
	}
	l, r := x.X, x.Y
	op := x.Op
	if _, lc := l.(*ssa.Const); lc {
		l, r = r, l
		op = swapTok(op)
	}
	rc, ok := r.(*ssa.Const)
	if !ok {
		if a, neg := an.ageLifeAtom(x); a != nil {
			return a, neg
		}
		return an.exceedsAtom(x)
	}
	// emptiness of a slice/map/string: len(x) == 0 (or != 0, > 0, < 1, >= 1)
	if lc, ok := l.(*ssa.Call); ok {
		if bi, isB := lc.Call.Value.(*ssa.Builtin); isB && bi.Name() == "len" && len(lc.Call.Args) == 1 {
			if k, ok := constInt(rc); ok {
				switch {
				case k == 0 && op == token.EQL, k == 1 && op == token.LSS, k == 0 && op == token.LEQ:
					return &Atom{Key: "cmp:len==0", Val: an.canon(lc.Call.Args[0])}, false
				case k == 0 && (op == token.NEQ || op == token.GTR), k == 1 && op == token.GEQ:
					return &Atom{Key: "cmp:len==0", Val: an.canon(lc.Call.Args[0])}, true
				}
			}
		}
	}
	// bool compare with constant
	if b, ok := constBool(rc); ok && (op == token.EQL || op == token.NEQ) {
		a, n := an.atomOf(l, depth+1)
		if a == nil {
			return nil, false
		}
		if (op == token.EQL) != b {
			n = !n
		}
		return a, n
	}
	// nil tests
	if rc.Value == nil && (op == token.EQL || op == token.NEQ) {
		key := ""
		lt := l.Type()
		switch {
		case isErrorType(lt):
			key = "nil:err"
		case isHTTPResponsePtr(lt):
			key = "nil:resp"
		default:
			// collaborator field / other pointer or interface
			if u, ok := l.(*ssa.UnOp); ok && u.Op == token.MUL {
				if fa, ok := u.X.(*ssa.FieldAddr); ok {
					if n := namedOf(derefType(fa.X.Type())); n != nil {
						if st, ok := n.Underlying().(*types.Struct); ok {
							key = "nil:field:" + n.Obj().Name() + "." + st.Field(fa.Field).Name()
						}
					}
				}
			}
			if key == "" {
				key = "nil:other"
			}
		}
		// atom is "X == nil"; NEQ negates
		return &Atom{Key: key, Val: an.canon(l)}, op == token.NEQ
	}
	// comparison of a directive's decoded value with a constant: rq.max-age.val>0
	if ex, ok := l.(*ssa.Extract); ok && ex.Index == 0 {
		if ac, ok := ex.Tuple.(*ssa.Call); ok {
			if sc := ac.Call.StaticCallee(); sc != nil {
				if di, isAcc := an.A.DirAcc[sc]; isAcc && di.Tuple && len(ac.Call.Args) > 0 {
					if k, ok := constInt(rc); ok {
						cls := di.Class
						if cls == "rsT" {
							cls = an.DirClass(ac.Call.Args[0])
						}
						o, neg := op, false
						if o == token.NEQ {
							o, neg = token.EQL, true
						}
						return &Atom{Key: fmt.Sprintf("%s.%s.val%s%d", cls, di.Directive, o, k), Val: ac.Call.Args[0], Op: o, K: k}, neg
					}
				}
			}
		}
	}
	// header presence: Header.Get(const) ==/!= ""
	if call, ok := l.(*ssa.Call); ok && callIsMethod(&call.Call, "net/http", "Header", "Get") && (op == token.EQL || op == token.NEQ) {
		if s, ok := constStr(rc); ok && s == "" {
			recv, args := recvAndArgs(&call.Call)
			if k, ok := constStr(args[0]); ok {
				// atom: "header field k is present (non-empty)"; `== ""` negates
				return &Atom{Key: "hdr." + an.HeaderClass(recv) + "." + http.CanonicalHeaderKey(k) + ".present", Val: recv, S: k}, op == token.EQL
			}
		}
	}
	// a status code that arrives as a parameter of a helper (`mustUnderstandStatus(code, …)`): the comparison is about the
	// response whose StatusCode every caller passes
	if sl := an.statusArgOf(l, 0); sl != nil {
		l = sl
	}
	// status / method comparisons
	if u, ok := l.(*ssa.UnOp); ok && u.Op == token.MUL {
		if fa, ok := u.X.(*ssa.FieldAddr); ok {
			bt := fa.X.Type()
			if isHTTPResponsePtr(bt) && fieldName(bt, fa.Field) == "StatusCode" {
				if k, ok := constInt(rc); ok {
					neg := false
					o := op
					if o == token.NEQ {
						o, neg = token.EQL, true
					}
					return &Atom{Key: fmt.Sprintf("cmp:status%s%d", o, k), Val: an.canon(fa.X), Op: o, K: k}, neg
				}
			}
			if isHTTPRequestPtr(bt) && fieldName(bt, fa.Field) == "Method" {
				if s, ok := constStr(rc); ok && (op == token.EQL || op == token.NEQ) {
					return &Atom{Key: "cmp:method==" + s, Val: an.canon(fa.X), Op: token.EQL, S: s}, op == token.NEQ
				}
			}
		}
	}
	return nil, false
}

// ageLifeAtom: a comparison of the freshness record's age with its lifetime (`fr.Age.Value >= fr.UsefulLife`): the atom
// "fr.age>=life" (the response is past its lifetime whatever the staleness flag says, e.g. after max-stale relaxed it).
func (an *Analysis) ageLifeAtom(x *ssa.BinOp) (*Atom, bool) {
	if an.A.FreshT == nil {
		return nil, false
	}
	kind := func(v ssa.Value) string {
		u, ok := an.canon(v).(*ssa.UnOp)
		if !ok {
			return ""
		}
		fa, ok := u.X.(*ssa.FieldAddr)
		if !ok {
			return ""
		}
		if isPtrToNamed(fa.X.Type(), an.A.FreshT) && fa.Field == an.A.FreshLife {
			return "life"
		}
		if an.A.AgeT != nil && isPtrToNamed(fa.X.Type(), an.A.AgeT) && typeIs(u.Type(), "time", "Duration") {
			return "age"
		}
		return ""
	}
	l, r := kind(x.X), kind(x.Y)
	op := x.Op
	if l == "life" && r == "age" {
		l, r = r, l
		op = swapTok(op)
	}
	if l != "age" || r != "life" {
		return nil, false
	}
	switch op {
	case token.GEQ:
		return &Atom{Key: "fr.age>=life"}, false
	case token.LSS:
		return &Atom{Key: "fr.age>=life"}, true
	}
	return nil, false
}

// exceedsAtom: `age OP <decoded request directive value>` with age derived from the freshness record's age (or the
// current-age function): the atom "<cls>.<directive>.exceeded" (age >= value; `>` is folded into it).
func (an *Analysis) exceedsAtom(x *ssa.BinOp) (*Atom, bool) {
	var dirVal func(v ssa.Value) (string, bool)
	dirVal = func(v ssa.Value) (string, bool) {
		if p, isP := an.canon(v).(*ssa.Parameter); isP {
			// a value handed to a local helper: every call site passes the decoded value of the same directive
			fn := p.Parent()
			idx := paramIndex(fn, p)
			callers := an.P.Callers(fn)
			name := ""
			for _, cs := range callers {
				arg := argForParam(cs.Instr.Common(), fn, idx)
				if arg == nil {
					return "", false
				}
				n, ok := dirVal(arg)
				if !ok || name != "" && n != name {
					return "", false
				}
				name = n
			}
			return name, name != ""
		}
		ex, ok := an.canon(v).(*ssa.Extract)
		if !ok || ex.Index != 0 {
			return "", false
		}
		ac, ok := ex.Tuple.(*ssa.Call)
		if !ok {
			return "", false
		}
		sc := ac.Call.StaticCallee()
		if sc == nil {
			return "", false
		}
		di, isAcc := an.A.DirAcc[sc]
		if !isAcc || !di.Tuple || len(ac.Call.Args) == 0 {
			return "", false
		}
		cls := di.Class
		if cls == "rsT" {
			cls = an.DirClass(ac.Call.Args[0])
		}
		return cls + "." + di.Directive, true
	}
	isAge := func(v ssa.Value) bool {
		hit := false
		an.P.TraceBack(v, TraceOpts{ThroughOps: true, ThroughExtern: true, NoParams: true, NoHeapFields: true}, func(y ssa.Value, _ []int) bool {
			if hit {
				return false
			}
			if fa, ok := y.(*ssa.FieldAddr); ok && an.A.FreshT != nil && isPtrToNamed(fa.X.Type(), an.A.FreshT) && fa.Field == an.A.FreshAge {
				hit = true
			}
			// a member of an age record (its value or its timestamp), whatever the record was reached through
			if fa, ok := y.(*ssa.FieldAddr); ok && an.A.AgeT != nil && isPtrToNamed(fa.X.Type(), an.A.AgeT) {
				hit = true
			}
			if c, ok := y.(*ssa.Call); ok && an.A.F("currentAge") != nil && c.Call.StaticCallee() == an.A.F("currentAge") {
				hit = true
			}
			return !hit
		})
		return hit
	}
	// a value computed by a local function from age values (SaturatingAdd(age, resident)) is an age as well; the
	// backward trace enters such a function through its result and stops at its parameters, so the arguments are
	// looked at here
	isAge0 := isAge
	var isAgeDeep func(v ssa.Value, depth int) bool
	isAgeDeep = func(v ssa.Value, depth int) bool {
		if isAge0(v) {
			return true
		}
		if u, ok := v.(*ssa.UnOp); ok {
			if fa, ok := u.X.(*ssa.FieldAddr); ok {
				if an.A.AgeT != nil && isPtrToNamed(fa.X.Type(), an.A.AgeT) {
					return true
				}
				if an.A.FreshT != nil && isPtrToNamed(fa.X.Type(), an.A.FreshT) && fa.Field == an.A.FreshAge {
					return true
				}
			}
		}
		if depth > 2 {
			return false
		}
		if c, ok := v.(*ssa.Call); ok && len(an.P.RepoCallees(c)) > 0 {
			for _, a := range c.Call.Args {
				if typeIs(a.Type(), "time", "Duration") && isAgeDeep(a, depth+1) {
					return true
				}
			}
		}
		if b, ok := v.(*ssa.BinOp); ok {
			return isAgeDeep(b.X, depth+1) || isAgeDeep(b.Y, depth+1)
		}
		return false
	}
	isAge = func(v ssa.Value) bool { return isAgeDeep(v, 0) }
	op := x.Op
	l, r := x.X, x.Y
	name, ok := dirVal(r)
	if !ok {
		if name, ok = dirVal(l); !ok {
			return nil, false
		}
		l, r = r, l
		op = swapTok(op)
	}
	if os.Getenv("HCV_DEBUG") != "" {
		fmt.Fprintf(os.Stderr, "exceedsAtom %v: name=%q isAge=%v\n", x, name, isAge(l))
	}
	if name != "rq.max-age" || !isAge(l) {
		return nil, false
	}
	switch op {
	case token.GEQ, token.GTR:
		return &Atom{Key: name + ".exceeded"}, false
	case token.LSS, token.LEQ:
		return &Atom{Key: name + ".exceeded"}, true
	}
	return nil, false
}

func fieldName(t types.Type, idx int) string {
	st, ok := derefType(t).Underlying().(*types.Struct)
	if !ok || idx >= st.NumFields() {
		return ""
	}
	return st.Field(idx).Name()
}

// canon forwards single-store cells so that two loads of one variable compare equal.
func (an *Analysis) canon(v ssa.Value) ssa.Value {
	for i := 0; i < 4; i++ {
		u, ok := v.(*ssa.UnOp)
		if !ok || u.Op != token.MUL {
			return v
		}
		if fa, ok := u.X.(*ssa.FieldAddr); ok {
			// member of a local struct written exactly once
			if al, ok := fa.X.(*ssa.Alloc); ok {
				if srcs, ok := an.localFieldSources(al, []int{fa.Field}, 0); ok && len(srcs) == 1 {
					v = srcs[0]
					continue
				}
			}
			return v
		}
		al, ok := u.X.(*ssa.Alloc)
		if !ok {
			return v
		}
		sts := an.P.cellStores(al)
		if len(sts) != 1 {
			return v
		}
		v = sts[0].Val
	}
	return v
}

func (an *Analysis) callAtom(c *ssa.Call, idx int) (*Atom, bool) {
	// directive accessors
	if sc := c.Call.StaticCallee(); sc != nil {
		if di, ok := an.A.DirAcc[sc]; ok && len(c.Call.Args) >= 1 {
			cls := di.Class
			if cls == "rsT" {
				cls = an.DirClass(c.Call.Args[0])
			}
			if idx == -1 && !di.Tuple {
				return &Atom{Key: cls + "." + di.Directive, Val: c.Call.Args[0]}, false
			}
			if idx == 1 && di.Tuple {
				return &Atom{Key: cls + "." + di.Directive + ".ok", Val: c.Call.Args[0]}, false
			}
			return nil, false
		}
		// raw.Value() on the first result of a tuple accessor
		if an.A.RawValue[sc] && idx == 1 && len(c.Call.Args) == 1 {
			if ex, ok := c.Call.Args[0].(*ssa.Extract); ok && ex.Index == 0 {
				if ac, ok := ex.Tuple.(*ssa.Call); ok {
					if a, _ := an.callAtom(ac, 1); a != nil && strings.HasSuffix(a.Key, ".ok") {
						return &Atom{Key: strings.TrimSuffix(a.Key, ".ok") + ".arg", Val: a.Val}, false
					}
				}
			}
			// a raw decoder applied to something else (a header value): a plain named result atom
			return &Atom{Key: fmt.Sprintf("ret:%s#%d", sc.Name(), idx)}, false
		}
	}
	if idx != -1 {
		// bool result #idx of a static repo call: a named atom so that rows can refer to it
		if sc := c.Call.StaticCallee(); sc != nil && an.P.IsRepoFunc(sc) {
			name := an.A.roleOf[sc]
			if name == "" {
				name = sc.Name()
			}
			return &Atom{Key: fmt.Sprintf("ret:%s#%d", name, idx)}, false
		}
		return nil, false
	}
	// designated predicates
	for _, callee := range an.P.Callees(c) {
		if role := an.predRole(callee); role != "" {
			var val ssa.Value
			_, args := recvAndArgs(&c.Call)
			if len(args) > 0 {
				val = args[0]
			}
			return &Atom{Key: "pred:" + role, Val: val}, false
		}
	}
	return nil, false
}

var predRoles = map[string]bool{"heurStatus": true, "understood": true, "gate": true, "canStore": true, "siePolicy": true, "unsafe": true, "nonError": true, "sameOrigin": true, "sieStatus": true}

// predRole maps a callee to a predicate role, looking through one-line adapter methods (XFunc.Method -> f(...)).
func (an *Analysis) predRole(fn *ssa.Function) string {
	if r := an.A.roleOf[fn]; predRoles[r] {
		return r
	}
	for _, g := range an.AdapterTargets(fn) {
		if r := an.A.roleOf[g]; predRoles[r] {
			return r
		}
	}
	return ""
}

// AdapterTargets: if fn is a pure forwarding adapter (single block: one call whose results are returned unchanged),
// the functions it forwards to; nil otherwise. Covers XFunc.Method(args) { return f(args) }.
func (an *Analysis) AdapterTargets(fn *ssa.Function) []*ssa.Function {
	if fn == nil || len(fn.Blocks) != 1 {
		return nil
	}
	var call *ssa.Call
	for _, in := range fn.Blocks[0].Instrs {
		switch x := in.(type) {
		case *ssa.Call:
			if call != nil {
				return nil
			}
			call = x
		case *ssa.Extract, *ssa.Return, *ssa.DebugRef:
		default:
			return nil
		}
	}
	if call == nil {
		return nil
	}
	return an.P.Callees(call)
}

// Assume is a partial valuation of atoms.
type Assume func(a *Atom) (val bool, known bool)

// AssumeKeys builds an assumption from "key=T/F" pairs.
func AssumeKeys(m map[string]bool) Assume {
	return func(a *Atom) (bool, bool) {
		v, ok := m[a.Key]
		return v, ok
	}
}

func assumeString(m map[string]bool) string {
	var parts []string
	for _, k := range sortedKeys(m) {
		v := "F"
		if m[k] {
			v = "T"
		}
		parts = append(parts, k+"="+v)
	}
	return "{" + strings.Join(parts, ", ") + "}"
}

// closeImplications adds the implications between atoms of one directive:
// X.arg=T => X.ok=T ; X.ok=F => X.arg=F.
func closeImplications(m map[string]bool) map[string]bool {
	out := map[string]bool{}
	for k, v := range m {
		out[k] = v
	}
	for k, v := range m {
		if strings.HasSuffix(k, ".arg") && v {
			if _, ok := out[strings.TrimSuffix(k, ".arg")+".ok"]; !ok {
				out[strings.TrimSuffix(k, ".arg")+".ok"] = true
			}
		}
		if strings.HasSuffix(k, ".ok") && !v {
			if _, ok := out[strings.TrimSuffix(k, ".ok")+".arg"]; !ok {
				out[strings.TrimSuffix(k, ".ok")+".arg"] = false
			}
		}
		// a valid argument implies presence: X.ok=T => X=T (presence accessor of the same directive); X=F => X.ok=F
		if strings.HasSuffix(k, ".ok") && v && (strings.HasPrefix(k, "rs.") || strings.HasPrefix(k, "rq.") || strings.HasPrefix(k, "up.")) {
			if _, ok := out[strings.TrimSuffix(k, ".ok")]; !ok {
				out[strings.TrimSuffix(k, ".ok")] = true
			}
		}
		if !strings.Contains(strings.TrimPrefix(strings.TrimPrefix(strings.TrimPrefix(k, "rs."), "rq."), "up."), ".") && !v && (strings.HasPrefix(k, "rs.") || strings.HasPrefix(k, "rq.") || strings.HasPrefix(k, "up.")) {
			if _, ok := out[k+".ok"]; !ok {
				out[k+".ok"] = false
			}
		}
	}
	return out
}

// statusArgOf: when v is an int parameter of a repo function and every call site passes the StatusCode of a response (a
// load of that field, directly or through such a parameter again), one of those loads; otherwise nil.
func (an *Analysis) statusArgOf(v ssa.Value, depth int) ssa.Value {
	if depth > 3 {
		return nil
	}
	p, ok := an.canon(v).(*ssa.Parameter)
	if !ok || !isIntType(p.Type()) {
		return nil
	}
	fn := p.Parent()
	idx := paramIndex(fn, p)
	if idx < 0 {
		return nil
	}
	callers := an.P.Callers(fn)
	if len(callers) == 0 {
		return nil
	}
	var found ssa.Value
	for _, cs := range callers {
		a := argForParam(cs.Instr.Common(), fn, idx)
		if a == nil {
			return nil
		}
		a = an.canon(a)
		if u, ok := a.(*ssa.UnOp); ok && u.Op == token.MUL {
			if fa, ok := u.X.(*ssa.FieldAddr); ok && isHTTPResponsePtr(fa.X.Type()) && fieldName(fa.X.Type(), fa.Field) == "StatusCode" {
				found = u
				continue
			}
		}
		if r := an.statusArgOf(a, depth+1); r != nil {
			found = r
			continue
		}
		return nil
	}
	return found
}
