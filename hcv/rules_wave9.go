package hcv

import (
	"net/http"
	"go/token"
	"go/constant"
	"fmt"
	"go/types"
	"sort"
	"strings"

	"golang.org/x/tools/go/ssa"
)

// Rules added in round 4 (ninth independent seeding, "data-flow slips" and "cooperating pairs").

// entryTimeRoles finds the two time fields of the entry type by the way the current-age function uses what is loaded
// from them: the field whose value arrives at the minuend of the parameter-minus-parameter difference (response_time -
// request_time, RFC 9111 §4.2.3) is the response time, the other one the request time. Returns field indices.
func (c *Ctx) entryTimeRoles() (reqF, respF int, why string) {
	reqF, respF = -1, -1
	ca := c.A.F("currentAge")
	if ca == nil || c.A.EntryT == nil {
		return -1, -1, "no current-age function / entry type"
	}
	st, ok := c.A.EntryT.Underlying().(*types.Struct)
	if !ok {
		return -1, -1, "entry type is not a struct"
	}
	var timeFields []int
	for i := 0; i < st.NumFields(); i++ {
		if typeIs(st.Field(i).Type(), "time", "Time") {
			timeFields = append(timeFields, i)
		}
	}
	if len(timeFields) != 2 {
		return -1, -1, fmt.Sprintf("the entry type has %d time fields, not two", len(timeFields))
	}
	isTimeParam := func(v ssa.Value) *ssa.Parameter {
		p, ok := c.An.canon(v).(*ssa.Parameter)
		if ok && p.Parent() == ca && typeIs(p.Type(), "time", "Time") {
			return p
		}
		return nil
	}
	// entry time field(s) a parameter of the current-age function is bound to at its call sites
	fieldsOf := func(p *ssa.Parameter) map[int]bool {
		out := map[int]bool{}
		c.P.TraceBack(p, TraceOpts{NoHeapFields: true}, func(x ssa.Value, _ []int) bool {
			if u, ok := x.(*ssa.UnOp); ok {
				if fa, ok := u.X.(*ssa.FieldAddr); ok && isPtrToNamed(fa.X.Type(), c.A.EntryT) && typeIs(u.Type(), "time", "Time") {
					out[fa.Field] = true
					return false
				}
			}
			if _, ok := x.(*ssa.Call); ok {
				return false // a decoded header (Date), not an entry field
			}
			return true
		})
		return out
	}
	var pairs [][2]int
	instrsOf(ca, func(in ssa.Instruction) {
		call, ok := in.(*ssa.Call)
		if !ok || !callIsMethod(&call.Call, "time", "Time", "Sub") {
			return
		}
		recv, args := recvAndArgs(&call.Call)
		x, y := isTimeParam(recv), isTimeParam(args[0])
		if x == nil || y == nil {
			return
		}
		fx, fy := fieldsOf(x), fieldsOf(y)
		if len(fx) == 1 && len(fy) == 1 {
			var a, b int
			for k := range fx {
				a = k
			}
			for k := range fy {
				b = k
			}
			pairs = append(pairs, [2]int{a, b})
		}
	})
	if len(pairs) != 1 {
		return -1, -1, fmt.Sprintf("%d differences of two entry times in %s (one expected: the response delay)", len(pairs), c.P.ShortName(ca))
	}
	respF, reqF = pairs[0][0], pairs[0][1]
	if respF == reqF {
		return -1, -1, "the response delay is the difference of one entry time with itself"
	}
	return reqF, respF, ""
}

// clockReading classifies a call that reads the clock (the repo's clock interface or time.Now) by its position
// relative to the origin calls of its function: "before" (an origin call follows, none precedes), "after" (an origin
// call precedes, none follows), "" otherwise.
func (c *Ctx) clockReading(call *ssa.Call) (string, bool) {
	isNow := false
	switch {
	case call.Call.IsInvoke() && call.Call.Method.Name() == "Now" && len(call.Call.Args) == 0:
		isNow = true
	case callIsPkgFunc(&call.Call, "time", "Now"):
		isNow = true
	}
	if !isNow || !typeIs(call.Type(), "time", "Time") {
		return "", false
	}
	return c.positionToOrigin(call), true
}

// positionToOrigin: "before" / "after" / "" for a call instruction relative to the origin calls of its function.
func (c *Ctx) positionToOrigin(call *ssa.Call) string {
	fn := call.Parent()
	before, after := false, false // an origin call after / before the reading
	for _, b := range fn.Blocks {
		for i, in := range b.Instrs {
			if !c.An.IsUpstreamSite(in) && !c.mayUpstreamCall(in) {
				continue
			}
			if b == call.Block() {
				idx := -1
				for j, x := range b.Instrs {
					if x == ssa.Instruction(call) {
						idx = j
					}
				}
				if i > idx {
					before = true
				} else {
					after = true
				}
				// a loop through the block counts both ways
				for _, s := range b.Succs {
					if reachableAvoiding(s, b, nil) {
						before, after = true, true
					}
				}
				continue
			}
			if reachableAvoiding(call.Block(), b, nil) {
				before = true
			}
			if reachableAvoiding(b, call.Block(), nil) {
				after = true
			}
		}
	}
	switch {
	case before && !after:
		return "before"
	case after && !before:
		return "after"
	}
	return ""
}

// mayUpstreamCall: a call instruction (not a go statement) whose callee may reach an origin call.
func (c *Ctx) mayUpstreamCall(in ssa.Instruction) bool {
	call, ok := in.(*ssa.Call)
	if !ok {
		return false
	}
	if f := call.Call.StaticCallee(); f != nil && f.Pkg != nil && c.P.IsRepoFunc(f) {
		return c.An.MayUpstream(f, false)
	}
	return false
}

// ruleTimeRoles (C08.20 / C09.25 / C11.19): RFC 9111 §4.2.3 needs request_time (the clock just before the request was
// sent) and response_time (the clock when the response arrived). Every value that is stored into the entry's
// request-time field derives from a reading of the clock that precedes the origin call of its exchange, every value stored
// into the response-time field from one that follows it (or from the decoder of a stored entry). The chain is followed
// through parameters, results, the revalidation context and struct fields, so that two arguments of the same type that
// change places anywhere between the timed round trip and the entry are found.
func ruleTimeRoles(c *Ctx, rule string) {
	desc := "the entry's request time is a clock reading in front of the origin call, its response time one behind it, on every path into the entry"
	if !c.Need(rule, "currentAge") {
		return
	}
	reqF, respF, why := c.entryTimeRoles()
	if why != "" {
		c.Undecided(rule, "time-roles", desc, why)
		return
	}
	st := c.A.EntryT.Underlying().(*types.Struct)
	type site struct {
		s    *ssa.Store
		want string
		name string
	}
	var sites []site
	for _, fn := range c.P.RepoFuncs {
		if isTestOnly(c, fn) {
			continue
		}
		instrsOf(fn, func(in ssa.Instruction) {
			s, ok := in.(*ssa.Store)
			if !ok {
				return
			}
			fa, ok := s.Addr.(*ssa.FieldAddr)
			if !ok || !isPtrToNamed(fa.X.Type(), c.A.EntryT) {
				return
			}
			switch fa.Field {
			case reqF:
				sites = append(sites, site{s, "before", st.Field(reqF).Name()})
			case respF:
				sites = append(sites, site{s, "after", st.Field(respF).Name()})
			}
		})
	}
	n := 0
	for _, si := range sites {
		var wrong, odd []string
		readings := 0
		c.P.TraceBack(si.s.Val, TraceOpts{}, func(x ssa.Value, _ []int) bool {
			if ex, ok := x.(*ssa.Extract); ok {
				if cl, ok := ex.Tuple.(*ssa.Call); ok && callIsPkgFunc(&cl.Call, "time", "Parse") {
					readings++ // the decoder of a stored entry: which column feeds which field is the codec rule's business
					return false
				}
			}
			call, ok := x.(*ssa.Call)
			if !ok {
				return true
			}
			if isTestOnly(c, call.Parent()) {
				return false
			}
			if pos, isNow := c.clockReading(call); isNow {
				readings++
				switch {
				case pos == "":
					odd = append(odd, c.P.ShortName(call.Parent())+"@"+c.P.InstrPos(call))
				case pos != si.want:
					wrong = append(wrong, c.P.ShortName(call.Parent())+"@"+c.P.InstrPos(call))
				}
				return false
			}
			if callIsPkgFunc(&call.Call, "time", "Parse") {
				readings++ // the decoder of a stored entry: which column feeds which field is the codec rule's business
				return false
			}
			// a helper that reads the clock for its caller (`r.now()`): the reading takes place where the helper is called
			if typeIs(call.Type(), "time", "Time") && !c.mayUpstreamCall(call) && !c.An.IsUpstreamSite(call) {
				if callees := c.P.RepoCallees(call); len(callees) > 0 && c.readsClockOnly(callees) {
					readings++
					pos := c.positionToOrigin(call)
					switch {
					case pos == "":
						odd = append(odd, c.P.ShortName(call.Parent())+"@"+c.P.InstrPos(call))
					case pos != si.want:
						wrong = append(wrong, c.P.ShortName(call.Parent())+"@"+c.P.InstrPos(call))
					}
					return false
				}
			}
			return true
		})
		where := c.P.ShortName(si.s.Parent()) + "@" + c.P.InstrPos(si.s) + " ." + si.name
		key := "time-roles " + c.P.ShortName(si.s.Parent()) + " ." + si.name
		sort.Strings(wrong)
		switch {
		case len(wrong) > 0:
			n++
			other := "behind"
			if si.want == "after" {
				other = "in front of"
			}
			c.Fail(rule, key, desc, where+": the value comes from the clock reading at "+strings.Join(uniqStrings(wrong), ", ")+", which lies "+other+" the origin call; with an origin that takes 3 s to answer the response delay max(response_time - request_time, 0) is 0 and the resident time counts from the wrong instant: the Age of every later hit is off by the delay, and the freshness lifetime ends at the wrong second", where)
		case readings == 0:
			c.Undecided(rule, key, desc, where+": no clock reading reaches the stored value", where)
		case len(odd) > 0:
			c.Undecided(rule, key, desc, where+": the clock reading at "+strings.Join(uniqStrings(odd), ", ")+" is neither in front of nor behind the origin call of its function", where)
		default:
			n++
			c.Pass(rule, key, desc, where)
		}
	}
	if n == 0 && len(sites) == 0 {
		c.Undecided(rule, "time-roles", desc, "no store into the entry's time fields")
	}
}

// headerOwners: which message(s) a header-map value belongs to ("request" / "response"): the Header field loads of
// *http.Request / *http.Response the value derives from (through parameters and results, not through operations).
func (c *Ctx) headerOwners(v ssa.Value) map[string]bool {
	out := map[string]bool{}
	c.P.TraceBack(v, TraceOpts{NoHeapFields: true}, func(x ssa.Value, _ []int) bool {
		u, ok := x.(*ssa.UnOp)
		if !ok {
			return true
		}
		fa, ok := u.X.(*ssa.FieldAddr)
		if !ok || !isHTTPHeader(u.Type()) {
			return true
		}
		switch {
		case isHTTPRequestPtr(fa.X.Type()):
			out["request"] = true
			return false
		case isHTTPResponsePtr(fa.X.Type()):
			out["response"] = true
			return false
		}
		return true
	})
	return out
}

// ruleSelectingValuesFromRequest (C04.20): the values a variant is filed under and matched by are the REQUEST's values of
// the nominated fields (RFC 9111 §4.1). In the storing function the call that resolves the Vary list (it takes a header
// map and yields names with values) gets the request's header map, and so does the matcher in RoundTrip; the response
// carries fields of the same names often enough (Accept-Ranges apart, a response may echo Accept-Language or Cookie).
func ruleSelectingValuesFromRequest(c *Ctx, rule string) {
	if !c.Need(rule, "storeResp", "varyMatch") {
		return
	}
	desc := "the nominated field values are read from the request's header map (store side and match side)"
	n := 0
	check := func(fn *ssa.Function, in ssa.Instruction, arg ssa.Value, what string) {
		n++
		own := c.headerOwners(arg)
		where := c.P.ShortName(fn) + "@" + c.P.InstrPos(in)
		key := "selecting-values-from-request " + what + " fn=" + c.P.ShortName(fn)
		switch {
		case own["response"]:
			c.Fail(rule, key, desc, where+": "+what+" reads the nominated fields from a response's header map; a response with `Vary: Accept-Language` is filed under the response's own (absent) Accept-Language, so the reply to `Accept-Language: de` is served to a request without the field and never to `de`", where)
		case own["request"]:
			c.Pass(rule, key, desc, where)
		default:
			c.Undecided(rule, key, desc, where+": the header map given to "+what+" is neither a request's nor a response's", where)
		}
	}
	sr := c.A.F("storeResp")
	instrsOf(sr, func(in ssa.Instruction) {
		call, ok := in.(*ssa.Call)
		if !ok {
			return
		}
		// the resolver: takes a header map, yields a sequence of pairs or a map of strings
		yields := false
		switch t := call.Type().Underlying().(type) {
		case *types.Signature:
			yields = true
		case *types.Map:
			yields = isStringType(t.Key()) && isStringType(t.Elem())
		}
		if !yields {
			return
		}
		_, args := recvAndArgs(&call.Call)
		for _, a := range args {
			if isHTTPHeader(a.Type()) {
				check(sr, in, a, "the Vary resolver")
			}
		}
		// a resolver that is given the message itself
		hasHeader := false
		for _, a := range args {
			if isHTTPHeader(a.Type()) {
				hasHeader = true
			}
		}
		if !hasHeader {
			for _, a := range args {
				where := c.P.ShortName(sr) + "@" + c.P.InstrPos(in)
				key := "selecting-values-from-request the Vary resolver fn=" + c.P.ShortName(sr)
				if isHTTPRequestPtr(a.Type()) {
					n++
					c.Pass(rule, key, desc, where)
				}
			}
		}
	})
	instrsOf(c.A.Root, func(in ssa.Instruction) {
		if !c.An.CallsRole(in, "varyMatch") {
			return
		}
		_, args := recvAndArgs(callOf(in))
		for _, a := range args {
			if isHTTPHeader(a.Type()) {
				check(c.A.Root, in, a, "the matcher")
			}
		}
	})
	if n == 0 {
		c.Undecided(rule, "selecting-values-from-request", desc, "neither a Vary resolver call in the storing function nor a matcher call in RoundTrip was found")
	}
}

// ruleIndexKeyIsURLKey (C03.15 / C09.26): the index of a URI is read and written under the URL key - the result of the
// key function - on every path from RoundTrip; an entry id (or any other string of the exchange) in that place files the
// index where no lookup finds it, or over an entry.
func ruleIndexKeyIsURLKey(c *Ctx, rule string) {
	if !c.Need(rule, "readIndex", "writeIndex", "urlKey") {
		return
	}
	desc := "every index read and write reachable from RoundTrip uses the result of the URL key function as its key"
	var fns []*ssa.Function
	for fn := range c.A.Reach {
		fns = append(fns, fn)
	}
	sort.Slice(fns, func(i, j int) bool { return FuncName(fns[i]) < FuncName(fns[j]) })
	n := 0
	for _, fn := range fns {
		if c.An.AdapterTargets(fn) != nil || isTestOnly(c, fn) {
			continue
		}
		instrsOf(fn, func(in ssa.Instruction) {
			what := ""
			switch {
			case c.An.CallsRole(in, "writeIndex"):
				what = "index write"
			case c.An.CallsRole(in, "readIndex"):
				what = "index read"
			default:
				return
			}
			_, args := recvAndArgs(callOf(in))
			if len(args) == 0 || !isStringType(args[0].Type()) {
				return
			}
			n++
			var good, bad []string
			c.P.TraceBack(args[0], TraceOpts{}, func(x ssa.Value, _ []int) bool {
				switch y := x.(type) {
				case *ssa.Call:
					if c.An.IsURLKeyCall(&y.Call, y) {
						good = append(good, c.P.InstrPos(y))
						return false
					}
					if len(c.P.RepoCallees(y)) > 0 {
						bad = append(bad, "the result of "+y.Call.String())
						return false
					}
					bad = append(bad, "`"+y.String()+"`")
					return false
				case *ssa.BinOp:
					bad = append(bad, "`"+y.String()+"`")
					return false
				case *ssa.Const:
					bad = append(bad, "the constant "+y.String())
					return false
				case *ssa.UnOp:
					if fa, ok := y.X.(*ssa.FieldAddr); ok && c.An.IsRefIDField(fa) {
						bad = append(bad, "a response id read from an index element")
						return false
					}
				case *ssa.Parameter:
					if isTestOnly(c, y.Parent()) {
						return false
					}
				}
				return true
			})
			where := c.P.ShortName(fn) + "@" + c.P.InstrPos(in)
			key := "index-key " + what + " fn=" + c.P.ShortName(fn)
			switch {
			case len(bad) > 0:
				c.Fail(rule, key, desc, where+": the key of the "+what+" is "+strings.Join(uniqStrings(bad), ", ")+", not the URL key; the index of `GET /a` lands under the entry's id, the next `GET /a` finds no index and goes to the origin although the response is stored and fresh", where)
			case len(good) == 0:
				c.Undecided(rule, key, desc, where+": no URL key call reaches the key of the "+what, where)
			default:
				c.Pass(rule, key, desc, where)
			}
		})
	}
	if n == 0 {
		c.Undecided(rule, "index-key", desc, "no index access reachable from RoundTrip")
	}
}

// ruleLookupPosition (C04.21 / C09.27): the entry RoundTrip reads is the element of the matched list AT the position the
// matcher returned, and the position handed on with the list is that position (or a constant "none"): the first element,
// or any other index, is a variant that was never compared with this request.
func ruleLookupPosition(c *Ctx, rule string) {
	if !c.Need(rule, "varyMatch", "readEntry") {
		return
	}
	desc := "the entry read and the position handed on use the matcher's result as index into the matched list"
	root := c.A.Root
	var pos, list ssa.Value
	instrsOf(root, func(in ssa.Instruction) {
		if !c.An.CallsRole(in, "varyMatch") {
			return
		}
		call, ok := in.(*ssa.Call)
		if !ok {
			return
		}
		_, args := recvAndArgs(&call.Call)
		for _, a := range args {
			if sl, ok := a.Type().Underlying().(*types.Slice); ok && isPtrToNamed(sl.Elem(), c.A.RefT) {
				list = a
			}
		}
		for _, r := range *call.Referrers() {
			if ex, ok := r.(*ssa.Extract); ok && isIntType(ex.Type()) {
				pos = ex
			}
		}
		if isIntType(call.Type()) {
			pos = call
		}
	})
	if pos == nil || list == nil {
		c.Undecided(rule, "lookup-position", desc, "matcher call, its list argument or its position result not found in "+c.P.ShortName(root))
		return
	}
	n := 0
	instrsOf(root, func(in ssa.Instruction) {
		if !c.An.CallsRole(in, "readEntry") {
			return
		}
		n++
		_, args := recvAndArgs(callOf(in))
		var idx []*ssa.IndexAddr
		c.P.TraceBack(args[0], TraceOpts{NoParams: true, NoHeapFields: true}, func(x ssa.Value, _ []int) bool {
			if u, ok := x.(*ssa.UnOp); ok {
				if fa, ok := u.X.(*ssa.FieldAddr); ok && c.An.IsRefIDField(fa) {
					if l, ok := fa.X.(*ssa.UnOp); ok {
						if ia, ok := l.X.(*ssa.IndexAddr); ok {
							idx = append(idx, ia)
						}
					}
					return false
				}
			}
			return true
		})
		where := c.P.ShortName(root) + "@" + c.P.InstrPos(in)
		if len(idx) == 0 {
			return // C09.4 reports a key that is not an element's id
		}
		for _, ia := range idx {
			if c.An.sameCanon(ia.Index, pos) && c.An.sameCanon(ia.X, list) {
				c.Pass(rule, "lookup-position entry-read", desc, where)
			} else {
				c.Fail(rule, "lookup-position entry-read", desc, where+": the id is read from `"+ia.String()+"`, which is not the matched list at the matcher's position; with variants `en` and `fr` stored, `Accept-Language: fr` is answered with the body of `en`", where)
			}
		}
	})
	// the position handed on together with the list
	instrsOf(root, func(in ssa.Instruction) {
		cc := callOf(in)
		if cc == nil || c.An.CallsRole(in, "varyMatch") {
			return
		}
		_, args := recvAndArgs(cc)
		hasList := false
		for _, a := range args {
			if sl, ok := a.Type().Underlying().(*types.Slice); ok && isPtrToNamed(sl.Elem(), c.A.RefT) {
				hasList = true
			}
		}
		if !hasList {
			return
		}
		for _, a := range args {
			if !isIntType(a.Type()) {
				continue
			}
			n++
			where := c.P.ShortName(root) + "@" + c.P.InstrPos(in)
			if k, ok := constInt(a); ok && k < 0 {
				c.Pass(rule, "lookup-position handed-on", desc, where)
				continue
			}
			if c.An.sameCanon(a, pos) {
				c.Pass(rule, "lookup-position handed-on", desc, where)
				continue
			}
			c.Fail(rule, "lookup-position handed-on", desc, where+": the position handed on is `"+a.String()+"`, neither the matcher's result nor a negative constant; the write-back replaces the reference of another variant, which is stored and fresh but never found again", where)
		}
	})
	if n == 0 {
		c.Undecided(rule, "lookup-position", desc, "no entry read in "+c.P.ShortName(root))
	}
}

func isIntType(t types.Type) bool {
	b, ok := t.Underlying().(*types.Basic)
	return ok && b.Kind() == types.Int
}

// ruleMergeBeforeWriteBack (C01.28 / C02.17 / C08.22): after a 304 the stored response is freshened first and written
// back afterwards: on the 304 branch of the validation handler the call of the merge function dominates every call of
// the storing function, or the store keeps the old Cache-Control / Expires / ETag with the new times (a 304 that says
// `no-cache` or `max-age=0` is forgotten; the next request is a HIT).
func ruleMergeBeforeWriteBack(c *Ctx, rule string) {
	if !c.Need(rule, "validationHandler", "merge304", "storeResp") {
		return
	}
	desc := "on the 304 branch the merge of the 304's fields precedes the write-back on every path"
	vh := c.A.F("validationHandler")
	m := c.A.F("merge304")
	assume := map[string]bool{"nil:err": true, "cmp:method==GET": true, "cmp:status==304": true}
	pr := c.An.Prune(vh, AssumeKeys(assume))
	var merges, stores []ssa.Instruction
	pr.LiveInstrs(func(in ssa.Instruction) {
		if cc := callOf(in); cc != nil {
			if f := cc.StaticCallee(); f != nil && (f == m || c.P.StaticTree(f)[m]) {
				merges = append(merges, in)
			}
		}
		if c.An.CallsRole(in, "storeResp") || c.An.CallsRole(in, "writeEntry") {
			stores = append(stores, in)
		}
	})
	if len(stores) == 0 {
		c.Pass(rule, "merge-before-write-back (not applicable)", desc, "no write-back on the 304 branch: C08.1 reports that")
		return
	}
	for _, s := range stores {
		where := c.P.ShortName(vh) + "@" + c.P.InstrPos(s)
		ok := false
		for _, mg := range merges {
			if instrDominates(mg, s) {
				ok = true
			}
		}
		if ok {
			c.Pass(rule, "merge-before-write-back", desc, where)
		} else {
			c.Fail(rule, "merge-before-write-back", desc, where+": the write-back is not preceded by the merge; store `max-age=3600`, force a validation with `no-cache` whose 304 says `Cache-Control: no-cache` (or `max-age=0`): the caller sees the new field, the store keeps `max-age=3600` with restarted times, and the next plain request is a HIT without validation", where)
		}
	}
}

// ruleContextCarriesParsedDirectives (C02.18 / C06.18 / C13.20): the request directives the validation handler consults
// (no-store for the write-back, no-cache and stale-if-error for the failure path) are the ones parsed from the request: the
// context's request-directive field is stored from the result of the request parser itself, not from a private copy made
// for another consumer (the freshness calculation gets a copy without max-age; a copy reduced further, or nil, loses
// no-store / no-cache / stale-if-error exactly for the requests that say max-age=0).
func ruleContextCarriesParsedDirectives(c *Ctx, rule string) {
	if !c.Need(rule, "validationHandler", "parseReq") || c.A.RevalCtxT == nil {
		return
	}
	desc := "the revalidation context's request directives are the parser's result for the request (no reduced copy)"
	st, ok := c.A.RevalCtxT.Underlying().(*types.Struct)
	if !ok {
		c.Undecided(rule, "context-directives", desc, "the context type is not a struct")
		return
	}
	field := -1
	for i := 0; i < st.NumFields(); i++ {
		if isNamed(st.Field(i).Type(), c.A.ReqDirT) {
			field = i
		}
	}
	if field < 0 {
		c.Undecided(rule, "context-directives", desc, "the context type has no request-directive field")
		return
	}
	n := 0
	for fn := range c.A.Reach {
		if isTestOnly(c, fn) {
			continue
		}
		instrsOf(fn, func(in ssa.Instruction) {
			s, ok := in.(*ssa.Store)
			if !ok {
				return
			}
			fa, ok := s.Addr.(*ssa.FieldAddr)
			if !ok || !isPtrToNamed(fa.X.Type(), c.A.RevalCtxT) || fa.Field != field {
				return
			}
			n++
			where := c.P.ShortName(fn) + "@" + c.P.InstrPos(in)
			key := "context-directives fn=" + c.P.ShortName(fn)
			var bad []string
			parsed := false
			c.P.TraceBack(s.Val, TraceOpts{}, func(x ssa.Value, _ []int) bool {
				switch y := x.(type) {
				case *ssa.Call:
					if y.Call.StaticCallee() == c.A.F("parseReq") {
						parsed = true
						return false
					}
					if len(c.P.RepoCallees(y)) == 0 {
						bad = append(bad, "`"+y.String()+"`")
						return false
					}
				case *ssa.MakeMap:
					bad = append(bad, "a map built at "+c.P.Pos(y.Pos()))
					return false
				case *ssa.Const:
					if y.IsNil() {
						bad = append(bad, "nil")
					}
				}
				return true
			})
			switch {
			case len(bad) > 0:
				sort.Strings(bad)
				c.Fail(rule, key, desc, where+": the context may carry "+strings.Join(uniqStrings(bad), ", ")+" instead of the parsed request directives; a request `Cache-Control: max-age=0, no-store` (or `max-age=0, no-cache` with a failing origin, or `max-age=0, stale-if-error=60`) reaches the handler without its other directives: the reply is stored during a no-store request, a stored response is served although no-cache forbids it, or the request's stale-if-error is ignored", where)
			case !parsed:
				c.Undecided(rule, key, desc, where+": no call of the request parser reaches the stored value", where)
			default:
				c.Pass(rule, key, desc, where)
			}
		})
	}
	if n == 0 {
		c.Undecided(rule, "context-directives", desc, "no store into the context's request-directive field on the exchange")
	}
}

// ruleHexDigitSetExact (C03.16): a percent sign starts an escape only when two hexadecimal digits follow (RFC 3986 §2.1).
// The byte predicate of the key function's tree that accepts '7' and rejects '~' (the hex-digit test; the other byte
// predicate there is the unreserved set of C03.1) is evaluated for all 256 byte values and accepts exactly 0-9 A-F a-f:
// a wider set "decodes" `%zz` or `50%off` in a query and merges the keys of different URIs.
func ruleHexDigitSetExact(c *Ctx, rule string) {
	if !c.Need(rule, "urlKey") {
		return
	}
	desc := "the hex-digit test of the percent-encoding normaliser accepts exactly 0-9 A-F a-f"
	n := 0
	// the byte predicates called where a byte is compared with '%' (the escape scanner), other than the unreserved set
	cands := map[*ssa.Function]bool{}
	for _, sc := range c.reachableFrom(c.A.F("urlKey")) {
		if !intConstsIn(sc)['%'] {
			continue
		}
		instrsOf(sc, func(in ssa.Instruction) {
			cc := callOf(in)
			if cc == nil {
				return
			}
			f := cc.StaticCallee()
			if f == nil || !c.P.IsRepoFunc(f) || intConstsIn(f)['~'] {
				return
			}
			ps, rs := sigParams(f), sigResults(f)
			if len(ps) != 1 || len(rs) != 1 || !isBoolType(rs[0]) {
				return
			}
			if b, ok := ps[0].Underlying().(*types.Basic); ok && b.Info()&types.IsInteger != 0 {
				cands[f] = true
			}
		})
	}
	var fns []*ssa.Function
	for f := range cands {
		fns = append(fns, f)
	}
	sort.Slice(fns, func(i, j int) bool { return FuncName(fns[i]) < FuncName(fns[j]) })
	for _, fn := range fns {
		ev := func(x int64) (bool, error) {
			res, err := c.An.EvalPred(fn, []constant.Value{constant.MakeInt64(x)}, 0)
			if err != nil {
				return false, err
			}
			return constant.BoolVal(res[0]), nil
		}
		n++
		var wrong []string
		for x := int64(0); x <= 255; x++ {
			got, err := ev(x)
			if err != nil {
				c.Undecided(rule, "hex-digit-set", desc, c.P.ShortName(fn)+": "+err.Error())
				return
			}
			want := ('0' <= x && x <= '9') || ('A' <= x && x <= 'F') || ('a' <= x && x <= 'f')
			if got != want {
				wrong = append(wrong, fmt.Sprintf("0x%02X", x))
			}
		}
		if len(wrong) > 0 {
			if len(wrong) > 12 {
				wrong = append(wrong[:12], fmt.Sprintf("... (%d more)", len(wrong)-12))
			}
			c.Fail(rule, "hex-digit-set", desc, c.P.ShortName(fn)+": differs from the hex digits at "+strings.Join(wrong, ", ")+"; `?q=50%off` and `?q=50%8Ff`, or `?x=%zz` and `?x=3`, get the same key and each other's responses", c.P.ShortName(fn))
		} else {
			c.Pass(rule, "hex-digit-set", desc, c.P.ShortName(fn)+": 256 byte values evaluated")
		}
	}
	if n == 0 {
		c.Undecided(rule, "hex-digit-set", desc, "no byte predicate is called where the key function's tree compares a byte with '%'")
	}
}

// ruleKeyReferenceKeepsEveryComponent (C03.17): when the key function builds a URL value of its own (a reference that it
// normalises), the value carries every component the key is made of: a composite literal of url.URL in the key function's
// tree sets Scheme, Host, a path field and RawQuery (a whole-struct copy of the input does so by construction).
func ruleKeyReferenceKeepsEveryComponent(c *Ctx, rule string) {
	if !c.Need(rule, "urlKey") {
		return
	}
	desc := "a URL value built inside the key function carries scheme, host, path and query"
	n := 0
	for _, fn := range c.reachableFrom(c.A.F("urlKey")) {
		// the URL values that are used as the reference (the argument of ResolveReference, whose path and query go into
		// the key), and the values copied into them; the base (the receiver) carries scheme and authority only
		isRef := map[*ssa.Alloc]bool{}
		instrsOf(fn, func(in ssa.Instruction) {
			cc := callOf(in)
			if cc == nil || !callIsMethod(cc, "net/url", "URL", "ResolveReference") {
				return
			}
			_, args := recvAndArgs(cc)
			if len(args) != 1 {
				return
			}
			if a, ok := args[0].(*ssa.Alloc); ok {
				isRef[a] = true
				for _, r := range *a.Referrers() {
					if s, ok := r.(*ssa.Store); ok && s.Addr == a {
						if u, ok := s.Val.(*ssa.UnOp); ok {
							if src, ok := u.X.(*ssa.Alloc); ok {
								isRef[src] = true
							}
						}
					}
				}
			}
		})
		instrsOf(fn, func(in ssa.Instruction) {
			al, ok := in.(*ssa.Alloc)
			if !ok || !isRef[al] || !typeIs(derefType(al.Type()), "net/url", "URL") || al.Referrers() == nil {
				return
			}
			set := map[string]bool{}
			whole := false
			for _, r := range *al.Referrers() {
				switch x := r.(type) {
				case *ssa.FieldAddr:
					if x.Referrers() == nil {
						continue
					}
					for _, r2 := range *x.Referrers() {
						if s, ok := r2.(*ssa.Store); ok && s.Addr == x {
							set[fieldName(al.Type(), x.Field)] = true
						}
					}
				case *ssa.Store:
					if x.Addr == al {
						whole = true
					}
				}
			}
			if whole || len(set) == 0 {
				return // a copy of a whole URL (patched in place), or a zero value that is only read
			}
			n++
			var missing []string
			for _, f := range []string{"Scheme", "Host", "RawQuery"} {
				if !set[f] {
					missing = append(missing, f)
				}
			}
			if !set["Path"] && !set["RawPath"] {
				missing = append(missing, "Path")
			}
			where := c.P.ShortName(fn) + "@" + c.P.InstrPos(al)
			if len(missing) > 0 {
				c.Fail(rule, "key-reference-complete fn="+c.P.ShortName(fn), desc, where+": the URL literal leaves out "+strings.Join(missing, ", ")+"; on the path that uses it (`/%7Ealice/inbox?page=1` - an escape that normalisation rewrites) the key ends before the query, and `?page=1`, `?page=2` and no query share one stored response", where)
			} else {
				c.Pass(rule, "key-reference-complete fn="+c.P.ShortName(fn), desc, where)
			}
		})
	}
	if n == 0 {
		c.Pass(rule, "key-reference-complete (none built)", desc, "the key function's tree builds no URL literal: the reference is a whole copy of the input")
	}
}

// ruleGateRefusalIsAnError (C19.20 / C15.12): a publishing step that is refused because its operation was abandoned is
// reported as an error: the writer relies on it to remove its temporary file. In the file-system backend every function
// that takes a step (a func() error parameter) and may return without calling it returns a non-nil error on that path.
func ruleGateRefusalIsAnError(c *Ctx, rule string) {
	if c.P.Pkg("store/fscache") == nil {
		return
	}
	desc := "a refused publishing step is reported as an error (the writer removes its temporary file)"
	n := 0
	for _, fn := range c.fsBackendFuncs() {
		var step *ssa.Parameter
		for _, p := range fn.Params {
			if sig, ok := p.Type().Underlying().(*types.Signature); ok && sig.Params().Len() == 0 && sig.Results().Len() == 1 && isErrorType(sig.Results().At(0).Type()) {
				step = p
			}
		}
		rs := sigResults(fn)
		if step == nil || len(rs) != 1 || !isErrorType(rs[0]) {
			continue
		}
		// returns that are not the step's result
		instrsOf(fn, func(in ssa.Instruction) {
			r, ok := in.(*ssa.Return)
			if !ok {
				return
			}
			v := c.An.RetVal(r, 0)
			viaStep := false
			c.P.TraceBack(v, TraceOpts{NoParams: true, NoHeapFields: true}, func(x ssa.Value, _ []int) bool {
				if call, ok := x.(*ssa.Call); ok && call.Call.Value == ssa.Value(step) {
					viaStep = true
					return false
				}
				return true
			})
			n++
			where := c.P.ShortName(fn) + "@" + c.P.InstrPos(r)
			nilOnly := false
			for _, root := range c.P.Roots(v, TraceOpts{NoParams: true, NoHeapFields: true}) {
				if isNilConst(root) {
					nilOnly = true
				}
			}
			if nilOnly && !viaStep {
				c.Fail(rule, "gate-refusal-is-error fn="+c.P.ShortName(fn), desc, where+": the function returns nil without having run the step; a Set that ran into the operation timeout believes its rename happened, leaves `.tmp-<pid>-<seq>` behind, and with `timeout=1ns` thirty requests leave thirty files that no key listing shows", where)
			} else {
				c.Pass(rule, "gate-refusal-is-error fn="+c.P.ShortName(fn), desc, where)
			}
		})
	}
	if n == 0 {
		c.Undecided(rule, "gate-refusal-is-error", desc, "no function of the file-system backend takes a publishing step")
	}
}

// ruleResponseDelayFromEntryTimes (C11.20 / C01.29): in the current-age function the difference that is added to the Age
// field's value is the response delay (RFC 9111 §4.2.3: corrected_age_value = age_value + response_delay); both of its
// operands are bound, at every call site, to the entry's own times - never to the decoded Date, which belongs into the
// apparent age only. With Date and request time exchanged every response that passed an upstream cache (Age: 100, Date
// 100 s old) is served with Age: 200.
func ruleResponseDelayFromEntryTimes(c *Ctx, rule string) {
	if !c.Need(rule, "currentAge") {
		return
	}
	desc := "the difference added to the Age field's value has both operands bound to the entry's request and response time"
	ca := c.A.F("currentAge")
	isTimeParam := func(v ssa.Value) *ssa.Parameter {
		p, ok := c.An.canon(v).(*ssa.Parameter)
		if ok && p.Parent() == ca && typeIs(p.Type(), "time", "Time") {
			return p
		}
		return nil
	}
	// values derived from the Age field
	fromAge := func(v ssa.Value) bool {
		hit := false
		c.P.TraceBack(v, TraceOpts{ThroughOps: true, ThroughExtern: true, NoParams: true, NoHeapFields: true}, func(x ssa.Value, _ []int) bool {
			if call, ok := x.(*ssa.Call); ok && callIsMethod(&call.Call, "net/http", "Header", "Get") {
				if _, args := recvAndArgs(&call.Call); len(args) == 1 {
					if s, ok := constStr(args[0]); ok && strings.EqualFold(s, "Age") {
						hit = true
					}
				}
			}
			return !hit
		})
		return hit
	}
	subsIn := func(v ssa.Value) []*ssa.Call {
		var out []*ssa.Call
		c.P.TraceBack(v, TraceOpts{ThroughOps: true, ThroughExtern: true, NoParams: true, NoHeapFields: true}, func(x ssa.Value, _ []int) bool {
			if call, ok := x.(*ssa.Call); ok && callIsMethod(&call.Call, "time", "Time", "Sub") {
				out = append(out, call)
				return false
			}
			return true
		})
		return out
	}
	var delays []*ssa.Call
	instrsOf(ca, func(in ssa.Instruction) {
		var ops []ssa.Value
		switch x := in.(type) {
		case *ssa.BinOp:
			if x.Op == token.ADD && typeIs(x.Type(), "time", "Duration") {
				ops = []ssa.Value{x.X, x.Y}
			}
		case *ssa.Call:
			if f := x.Call.StaticCallee(); f != nil && c.P.IsRepoFunc(f) && len(x.Call.Args) == 2 && typeIs(x.Type(), "time", "Duration") &&
				typeIs(x.Call.Args[0].Type(), "time", "Duration") && typeIs(x.Call.Args[1].Type(), "time", "Duration") {
				ops = x.Call.Args
			}
		}
		if len(ops) != 2 {
			return
		}
		for i := 0; i < 2; i++ {
			if fromAge(ops[i]) && !fromAge(ops[1-i]) {
				delays = append(delays, subsIn(ops[1-i])...)
			}
		}
	})
	if len(delays) == 0 {
		c.Undecided(rule, "response-delay-operands", desc, "no sum of the Age field's value and a difference of times in "+c.P.ShortName(ca))
		return
	}
	fieldsOf := func(p *ssa.Parameter) (fields map[int]bool, calls int) {
		fields = map[int]bool{}
		c.P.TraceBack(p, TraceOpts{NoHeapFields: true}, func(x ssa.Value, _ []int) bool {
			if isTestOnly(c, instrParent(x)) {
				return false
			}
			if u, ok := x.(*ssa.UnOp); ok {
				if fa, ok := u.X.(*ssa.FieldAddr); ok && isPtrToNamed(fa.X.Type(), c.A.EntryT) && typeIs(u.Type(), "time", "Time") {
					fields[fa.Field] = true
					return false
				}
			}
			if _, ok := x.(*ssa.Call); ok {
				calls++
				return false
			}
			return true
		})
		return
	}
	for _, d := range delays {
		recv, args := recvAndArgs(&d.Call)
		where := c.P.ShortName(ca) + "@" + c.P.InstrPos(d)
		bad := ""
		for _, op := range []ssa.Value{recv, args[0]} {
			p := isTimeParam(op)
			if p == nil {
				bad = "an operand is not a time parameter of the function"
				continue
			}
			f, calls := fieldsOf(p)
			if calls > 0 || len(f) != 1 {
				bad = "parameter " + p.Name() + " is bound to a decoded header value (or to no single entry field) at a call site"
			}
		}
		if bad != "" {
			c.Fail(rule, "response-delay-operands", desc, where+": "+bad+"; the age that is already in the Date is added to the Age field instead of being compared with it: a reply of an upstream cache with `Age: 100` and a Date 100 s old is served with `Age: 200`", where)
		} else {
			c.Pass(rule, "response-delay-operands", desc, where)
		}
	}
}

func instrParent(v ssa.Value) *ssa.Function {
	if in, ok := v.(ssa.Instruction); ok {
		return in.Parent()
	}
	if p, ok := v.(*ssa.Parameter); ok {
		return p.Parent()
	}
	return nil
}

// ruleKeyIgnoresUserinfo (C07.18 / C03.18): the userinfo of a URL is no part of the key (two spellings of one target
// URI - `http://alice:pw@h/doc` and `http://h/doc` - name the same stored responses, and a Location never carries it):
// no function of the key function's tree reads the User field of a URL.
func ruleKeyIgnoresUserinfo(c *Ctx, rule string) {
	if !c.Need(rule, "urlKey") {
		return
	}
	desc := "the key function does not read the userinfo of the URL"
	bad := ""
	n := 0
	for _, fn := range c.reachableFrom(c.A.F("urlKey")) {
		n++
		instrsOf(fn, func(in ssa.Instruction) {
			if fa, ok := in.(*ssa.FieldAddr); ok && typeIs(derefType(fa.X.Type()), "net/url", "URL") && fieldName(fa.X.Type(), fa.Field) == "User" {
				// a store of nil (clearing it) is fine; a load is a read
				for _, r := range *fa.Referrers() {
					if u, ok := r.(*ssa.UnOp); ok && u.Op == token.MUL {
						bad = c.P.ShortName(fn) + "@" + c.P.InstrPos(u)
					}
				}
			}
		})
	}
	if bad != "" {
		c.Fail(rule, "key-ignores-userinfo", desc, bad+": the userinfo goes into the key; `POST http://alice:secret@h/doc` no longer invalidates what `GET http://h/doc` stored, and a same-origin Location (which never carries userinfo) no longer names the entries of a client that uses such URLs", bad)
		return
	}
	c.Pass(rule, "key-ignores-userinfo", desc, fmt.Sprintf("%d function(s) of the key function's tree", n))
}

// ruleRootIsTheCreatedDirectory (C14.27): the directory the file-system backend opens as its root is the one it has just
// created from base directory AND application name: the argument of os.OpenRoot is the same value as the argument of
// os.MkdirAll, and it derives from a filepath.Join. Two applications under one base directory are two maps.
func ruleRootIsTheCreatedDirectory(c *Ctx, rule string) {
	if c.P.Pkg("store/fscache") == nil {
		return
	}
	desc := "the root handle is opened on the directory that was created for base directory and application name"
	n := 0
	for _, fn := range c.fsBackendFuncs() {
		var opens, mkdirs []*ssa.Call
		instrsOf(fn, func(in ssa.Instruction) {
			call, ok := in.(*ssa.Call)
			if !ok {
				return
			}
			if callIsPkgFunc(&call.Call, "os", "OpenRoot") {
				opens = append(opens, call)
			}
			if callIsPkgFunc(&call.Call, "os", "MkdirAll") {
				mkdirs = append(mkdirs, call)
			}
		})
		for _, o := range opens {
			n++
			where := c.P.ShortName(fn) + "@" + c.P.InstrPos(o)
			same := false
			for _, m := range mkdirs {
				if c.sameStringValue(o.Call.Args[0], m.Call.Args[0]) && instrDominates(m, o) {
					same = true
				}
			}
			joined := false
			c.P.TraceBack(o.Call.Args[0], TraceOpts{NoParams: true}, func(x ssa.Value, _ []int) bool {
				if call, ok := x.(*ssa.Call); ok && callIsPkgFunc(&call.Call, "path/filepath", "Join") {
					joined = true
					return false
				}
				return true
			})
			switch {
			case !same:
				c.Fail(rule, "root-is-created-dir", desc, where+": the directory given to os.OpenRoot is not the value given to the os.MkdirAll in front of it; with `?appname=a` and `?appname=b` under one base directory both backends read and write the same files: b.Get returns what a.Set stored, b.Delete removes a's entry", where)
			case !joined:
				c.Fail(rule, "root-is-created-dir", desc, where+": the directory given to os.OpenRoot does not derive from a filepath.Join (base directory and application name)", where)
			default:
				c.Pass(rule, "root-is-created-dir", desc, where)
			}
		}
	}
	if n == 0 {
		c.Undecided(rule, "root-is-created-dir", desc, "no os.OpenRoot call in the file-system backend")
	}
}

// sameStringValue: two string values are the same SSA value, or loads of the same struct field of the same base with no
// store to that field between them in the function (approximated: the same field address expression and the loads'
// nearest preceding store is the same instruction).
func (c *Ctx) sameStringValue(a, b ssa.Value) bool {
	if c.An.sameCanon(a, b) {
		return true
	}
	la, ok1 := a.(*ssa.UnOp)
	lb, ok2 := b.(*ssa.UnOp)
	if !ok1 || !ok2 {
		return false
	}
	fa, ok1 := la.X.(*ssa.FieldAddr)
	fb, ok2 := lb.X.(*ssa.FieldAddr)
	sameBase := func(x, y ssa.Value) bool {
		if c.An.sameCanon(x, y) {
			return true
		}
		ux, ok1 := x.(*ssa.UnOp)
		uy, ok2 := y.(*ssa.UnOp)
		return ok1 && ok2 && ux.Op == token.MUL && uy.Op == token.MUL && ux.X == uy.X // two loads of one captured variable
	}
	if !ok1 || !ok2 || fa.Field != fb.Field || !sameBase(fa.X, fb.X) {
		return false
	}
	// the last store to the field that dominates each load must be the same one
	last := func(ld *ssa.UnOp) *ssa.Store {
		var best *ssa.Store
		instrsOf(ld.Parent(), func(in ssa.Instruction) {
			s, ok := in.(*ssa.Store)
			if !ok {
				return
			}
			sfa, ok := s.Addr.(*ssa.FieldAddr)
			if !ok || sfa.Field != fa.Field || !sameBase(sfa.X, fa.X) || !instrDominates(s, ld) {
				return
			}
			if best == nil || instrDominates(best, s) {
				best = s
			}
		})
		return best
	}
	return last(la) == last(lb)
}

// ruleResolvedValuePerName (C04.22): the value the Vary resolver yields for a nominated name is computed for that name: it
// is not carried over from the name before (an absent field must be recorded as absent). In the resolver's tree the value
// argument of a yield call is not a variable that lives outside the per-name body without being assigned on every path
// in front of the yield (a captured cell of a range-over-func body, or a loop-carried phi).
func ruleResolvedValuePerName(c *Ctx, rule string) {
	if !c.Need(rule, "storeResp") {
		return
	}
	desc := "the value yielded for a nominated name does not survive from the previous name"
	sr := c.A.F("storeResp")
	var roots []*ssa.Function
	instrsOf(sr, func(in ssa.Instruction) {
		call, ok := in.(*ssa.Call)
		if !ok {
			return
		}
		if _, isSig := call.Type().Underlying().(*types.Signature); !isSig {
			return
		}
		_, args := recvAndArgs(&call.Call)
		for _, a := range args {
			if isHTTPHeader(a.Type()) {
				roots = append(roots, c.P.RepoCallees(call)...)
			}
		}
	})
	seen := map[*ssa.Function]bool{}
	var fns []*ssa.Function
	var addAnon func(f *ssa.Function)
	addAnon = func(f *ssa.Function) {
		if seen[f] {
			return
		}
		seen[f] = true
		fns = append(fns, f)
		for _, a := range f.AnonFuncs {
			addAnon(a)
		}
	}
	for _, r := range roots {
		for _, f := range c.reachableFrom(r) {
			if f.Pkg != nil && f.Pkg.Pkg.Path() == c.A.internalPath {
				addAnon(f)
			}
		}
	}
	n := 0
	for _, fn := range fns {
		instrsOf(fn, func(in ssa.Instruction) {
			call, ok := in.(*ssa.Call)
			if !ok || call.Call.IsInvoke() || call.Call.StaticCallee() != nil || len(call.Call.Args) != 2 {
				return
			}
			if !isStringType(call.Call.Args[0].Type()) || !isStringType(call.Call.Args[1].Type()) || !isBoolType(call.Type()) {
				return
			}
			n++
			where := c.P.ShortName(fn) + "@" + c.P.InstrPos(call)
			bad := ""
			seenV := map[ssa.Value]bool{}
			var walk func(v ssa.Value)
			walk = func(v ssa.Value) {
				if seenV[v] {
					return
				}
				seenV[v] = true
				switch x := v.(type) {
				case *ssa.Phi:
					// loop-carried: the phi's block is reachable from one of its predecessors' successors (a back edge)
					for i, e := range x.Edges {
						pred := x.Block().Preds[i]
						if x.Block().Dominates(pred) {
							if _, isK := e.(*ssa.Const); !isK {
								bad = "the value is carried round the loop at " + c.P.InstrPos(x)
							}
						}
						walk(e)
					}
				case *ssa.UnOp:
					if x.Op != token.MUL {
						return
					}
					if fv, ok := x.X.(*ssa.FreeVar); ok {
						dominated := false
						for _, st := range c.P.cellStores(fv) {
							if st.Parent() == x.Parent() && instrDominates(st, x) {
								dominated = true
							}
						}
						if !dominated {
							bad = "the value is read from the captured variable " + fv.Name() + ", which is not assigned on every path of this body"
						}
					}
				}
			}
			walk(call.Call.Args[1])
			if bad != "" {
				c.Fail(rule, "resolved-value-per-name fn="+c.P.ShortName(fn), desc, where+": "+bad+"; with `Vary: Accept-Language, X-Feature` a request `Accept-Language: en` is filed as {Accept-Language: en, X-Feature: en}, and a later request `Accept-Language: en, X-Feature: en` gets that response", where)
			} else {
				c.Pass(rule, "resolved-value-per-name fn="+c.P.ShortName(fn), desc, where)
			}
		})
	}
	if n == 0 {
		c.Undecided(rule, "resolved-value-per-name", desc, "no yield of a name with its value in the Vary resolver's tree")
	}
}

// ruleHopSetKeysCanonical (C08.23 / C05.19): the set of hop-by-hop field names is looked up with the keys of header maps,
// which are canonical (the 304 merge tests `set[name]` for every field of the 304). Every name that goes into the set
// is canonical: a constant in canonical form, or a name produced through http.CanonicalHeaderKey /
// textproto.CanonicalMIMEHeaderKey - for a name that the body of a range-over-func loop receives, the sequence that is
// ranged over canonicalises. `Connection: x-session-hint` must keep `X-Session-Hint` out of the freshened response.
func ruleHopSetKeysCanonical(c *Ctx, rule string) {
	if !c.Need(rule, "hopTable") {
		return
	}
	desc := "every name put into the hop-by-hop set is in canonical form"
	ht := c.A.F("hopTable")
	canonCall := func(cc *ssa.CallCommon) bool {
		return callIsPkgFunc(cc, "net/http", "CanonicalHeaderKey") || callIsPkgFunc(cc, "net/textproto", "CanonicalMIMEHeaderKey")
	}
	treeCanonicalises := func(f *ssa.Function) bool {
		hit := false
		for g := range c.P.StaticTree(f) {
			var all []*ssa.Function
			var addAll func(h *ssa.Function)
			addAll = func(h *ssa.Function) {
				all = append(all, h)
				for _, a := range h.AnonFuncs {
					addAll(a)
				}
			}
			addAll(g)
			for _, h := range all {
				instrsOf(h, func(in ssa.Instruction) {
					if cc := callOf(in); cc != nil && canonCall(cc) {
						hit = true
					}
				})
			}
		}
		return hit
	}
	// sequences ranged over in the table function: static repo calls whose result is a function that takes a function
	seqsCanonical := true
	nseq := 0
	instrsOf(ht, func(in ssa.Instruction) {
		call, ok := in.(*ssa.Call)
		if !ok {
			return
		}
		sig, ok := call.Type().Underlying().(*types.Signature)
		if !ok || sig.Params().Len() != 1 {
			return
		}
		if _, ok := sig.Params().At(0).Type().Underlying().(*types.Signature); !ok {
			return
		}
		f := call.Call.StaticCallee()
		if f == nil || !c.P.IsRepoFunc(f) {
			seqsCanonical = false
			return
		}
		nseq++
		if !treeCanonicalises(f) {
			seqsCanonical = false
		}
	})
	n := 0
	fns := append([]*ssa.Function{ht}, ht.AnonFuncs...)
	for _, fn := range fns {
		instrsOf(fn, func(in ssa.Instruction) {
			mu, ok := in.(*ssa.MapUpdate)
			if !ok || !isStringType(mu.Key.Type()) {
				return
			}
			if s, ok := constStr(mu.Key); ok {
				if s != http.CanonicalHeaderKey(s) {
					n++
					c.Fail(rule, "hop-set-keys-canonical", desc, c.P.ShortName(fn)+"@"+c.P.InstrPos(mu)+": the constant "+s+" is not in canonical form")
				}
				return
			}
			n++
			where := c.P.ShortName(fn) + "@" + c.P.InstrPos(mu)
			ok2 := false
			c.P.TraceBack(mu.Key, TraceOpts{NoParams: true, NoHeapFields: true}, func(x ssa.Value, _ []int) bool {
				switch y := x.(type) {
				case *ssa.Call:
					if canonCall(&y.Call) {
						ok2 = true
						return false
					}
				case *ssa.Parameter:
					if y.Parent() != ht && y.Parent().Parent() == ht && nseq > 0 && seqsCanonical {
						ok2 = true
					}
				}
				return true
			})
			if ok2 {
				c.Pass(rule, "hop-set-keys-canonical", desc, where)
			} else {
				c.Fail(rule, "hop-set-keys-canonical", desc, where+": the name goes into the set as it is spelled in the Connection field; a 304 with `Connection: x-session-hint` and `X-Session-Hint: abc` is merged with that field (the merge looks up `X-Session-Hint`), and later hits replay a hop-by-hop field", where)
			}
		})
	}
	if n == 0 {
		c.Pass(rule, "hop-set-keys-canonical (constants only)", desc, c.P.ShortName(ht)+": no computed member")
	}
}

// ruleUnsignedParseClampedBeforeConversion (C12.23): a number decoded with strconv.ParseUint is brought into range while
// it is still unsigned: a conversion of the parsed value to a signed type is preceded, on every path, by a comparison of
// that value with a bound (or by a min/max on the unsigned value). Converted first, 2^63 and everything above (and the
// out-of-range result, the greatest uint64) turn negative, and the clamp that follows keeps them negative: `max-age=
// 9223372036854775808` acts as "no usable max-age" instead of "at least 2^31 seconds".
func ruleUnsignedParseClampedBeforeConversion(c *Ctx, rule string) {
	desc := "a delta-seconds value parsed as unsigned is bounded before it is converted to a signed type"
	n := 0
	for _, fn := range c.P.RepoFuncs {
		if fn.Pkg == nil || fn.Pkg.Pkg.Path() != c.A.internalPath || isTestOnly(c, fn) {
			continue
		}
		instrsOf(fn, func(in ssa.Instruction) {
			cv, ok := in.(*ssa.Convert)
			if !ok {
				return
			}
			from, ok1 := cv.X.Type().Underlying().(*types.Basic)
			to, ok2 := cv.Type().Underlying().(*types.Basic)
			if !ok1 || !ok2 || from.Info()&types.IsUnsigned == 0 || to.Info()&types.IsInteger == 0 || to.Info()&types.IsUnsigned != 0 {
				return
			}
			parsed := false
			bounded := false
			c.P.TraceBack(cv.X, TraceOpts{NoParams: true, NoHeapFields: true}, func(x ssa.Value, _ []int) bool {
				switch y := x.(type) {
				case *ssa.Extract:
					if call, ok := y.Tuple.(*ssa.Call); ok && callIsPkgFunc(&call.Call, "strconv", "ParseUint") {
						parsed = true
						return false
					}
				case *ssa.Call:
					if b, ok := y.Call.Value.(*ssa.Builtin); ok && (b.Name() == "min" || b.Name() == "max") {
						bounded = true // bounded in the unsigned domain
						return false
					}
				}
				return true
			})
			if !parsed {
				return
			}
			n++
			where := c.P.ShortName(fn) + "@" + c.P.InstrPos(cv)
			if !bounded {
				for _, dc := range dominatingConds(cv.Block()) {
					for _, lf := range condLeaves(dc.cond, dc.onTrue) {
						if bo, ok := lf.v.(*ssa.BinOp); ok {
							switch bo.Op {
							case token.LSS, token.LEQ, token.GTR, token.GEQ:
								if c.An.sameCanon(bo.X, cv.X) || c.An.sameCanon(bo.Y, cv.X) {
									bounded = true
								}
							}
						}
					}
				}
			}
			if bounded {
				c.Pass(rule, "unsigned-parse-bounded fn="+c.P.ShortName(fn), desc, where)
			} else {
				c.Fail(rule, "unsigned-parse-bounded fn="+c.P.ShortName(fn), desc, where+": the result of ParseUint is converted before it is bounded; `max-age=9223372036854775808` (2^63), `18446744073709551615` and every longer digit string become negative durations: max-age unusable, max-stale grants nothing, stale-if-error and stale-while-revalidate windows empty - instead of a value of at least 2^31 seconds", where)
			}
		})
	}
	if n == 0 {
		c.Pass(rule, "unsigned-parse-bounded (no unsigned parse)", desc, "no result of strconv.ParseUint is converted to a signed type in the internal package")
	}
}

// ruleNoSharedConnections (C17.15 / C14.28): every open of the file-system backend yields a connection built from that
// open's own parameters (directory, application name, key): the package keeps no package-level container (map, sync.Map,
// slice, channel) from which an earlier connection could be handed out. A connection shared by directory drops the later
// DSN's encryption settings: a wrong key gets a HIT, and `encrypt=on` after a plain open writes plaintext.
func ruleNoSharedConnections(c *Ctx, rule string) {
	fp := c.P.Pkg("store/fscache")
	if fp == nil {
		return
	}
	desc := "the file-system backend keeps no package-level container of connections"
	isContainer := func(t types.Type) bool {
		switch u := t.Underlying().(type) {
		case *types.Map, *types.Slice, *types.Chan:
			return true
		case *types.Struct:
			_ = u
			return typeIs(t, "sync", "Map") || typeIs(t, "sync", "Pool")
		case *types.Pointer:
			return typeIs(u.Elem(), "sync", "Map")
		}
		return false
	}
	var bad []string
	n := 0
	for _, m := range fp.Members {
		g, ok := m.(*ssa.Global)
		if !ok {
			continue
		}
		n++
		if !isContainer(derefType(g.Type())) {
			continue
		}
		// used by a function of the backend (other than the package initialiser's own assignment)? A map or slice counts
		// only when such a function changes it (a table that is only read hands out nothing that was put in at run
		// time); a sync.Map, a pool or a channel counts with any use.
		used := false
		_, isMap := derefType(g.Type()).Underlying().(*types.Map)
		_, isSlice := derefType(g.Type()).Underlying().(*types.Slice)
		readOnlyKind := isMap || isSlice
		for _, fn := range c.fsBackendFuncs() {
			if fn.Name() == "init" && fn.Parent() == nil {
				continue
			}
			instrsOf(fn, func(in ssa.Instruction) {
				for _, op := range in.Operands(nil) {
					if *op != ssa.Value(g) {
						continue
					}
					if !readOnlyKind {
						used = true
						continue
					}
					switch x := in.(type) {
					case *ssa.Store:
						if x.Addr == ssa.Value(g) {
							used = true // the variable itself is reassigned at run time
						}
					case *ssa.UnOp:
						// the loaded map / slice: is it updated?
						if x.Referrers() != nil {
							for _, r := range *x.Referrers() {
								switch y := r.(type) {
								case *ssa.MapUpdate:
									if y.Map == ssa.Value(x) {
										used = true
									}
								case *ssa.IndexAddr:
									if y.Referrers() != nil {
										for _, r2 := range *y.Referrers() {
											if s, ok := r2.(*ssa.Store); ok && s.Addr == ssa.Value(y) {
												used = true
											}
										}
									}
								case *ssa.Call:
									if b, ok := y.Call.Value.(*ssa.Builtin); ok && (b.Name() == "delete" || b.Name() == "clear" || b.Name() == "append") {
										used = true
									}
								}
							}
						}
					}
				}
			})
		}
		if used {
			bad = append(bad, g.Name()+" ("+derefType(g.Type()).String()+")")
		}
	}
	sort.Strings(bad)
	if len(bad) > 0 {
		c.Fail(rule, "no-shared-connections", desc, "package-level "+strings.Join(bad, ", ")+" is used by the backend's functions; a second open of the same directory with another key (or with encryption switched on) gets the first connection: a wrong key yields data, and values are written in plaintext although the DSN says encrypt=on", bad...)
		return
	}
	c.Pass(rule, "no-shared-connections", desc, fmt.Sprintf("%d package-level variable(s) of store/fscache examined", n))
}

// ruleDroppedResponseIsClosed (C20.13): a function that obtains a response from the origin and cannot return it (it has no
// response result: the background revalidation) either hands the response on or closes its body on every way out that
// follows a successful origin call. A response that is dropped with its body open keeps its connection, and with an
// upstream that does not end the exchange when the context does, the connection's goroutines outlive the background
// request for good.
func ruleDroppedResponseIsClosed(c *Ctx, rule string) {
	desc := "a function that cannot return the origin's response hands it on or closes its body on every way out"
	n := 0
	var fns []*ssa.Function
	for fn := range c.A.Reach {
		fns = append(fns, fn)
	}
	sort.Slice(fns, func(i, j int) bool { return FuncName(fns[i]) < FuncName(fns[j]) })
	for _, fn := range fns {
		if isTestOnly(c, fn) || c.An.AdapterTargets(fn) != nil {
			continue
		}
		returnsResp := false
		for _, t := range sigResults(fn) {
			if isHTTPResponsePtr(t) {
				returnsResp = true
			}
		}
		if returnsResp {
			continue
		}
		instrsOf(fn, func(in ssa.Instruction) {
			call, ok := in.(*ssa.Call)
			if !ok || !(c.An.IsUpstreamSite(in) || c.mayUpstreamCall(in)) {
				return
			}
			var resp ssa.Value
			if isHTTPResponsePtr(call.Type()) {
				resp = call
			}
			for _, r := range *call.Referrers() {
				if ex, ok := r.(*ssa.Extract); ok && isHTTPResponsePtr(ex.Type()) {
					resp = ex
				}
			}
			if resp == nil {
				return
			}
			n++
			pr := c.An.Prune(fn, AssumeKeys(map[string]bool{"nil:err": true}))
			// blocks that consume the response
			consumes := map[*ssa.BasicBlock]bool{}
			instrsOf(fn, func(i2 ssa.Instruction) {
				cc := callOf(i2)
				if cc == nil || i2 == ssa.Instruction(call) {
					return
				}
				if cc.IsInvoke() && cc.Method.Name() == "Close" {
					if u, ok := cc.Value.(*ssa.UnOp); ok {
						if fa, ok := u.X.(*ssa.FieldAddr); ok && c.An.sameCanon(fa.X, resp) {
							consumes[i2.Block()] = true
						}
					}
					return
				}
				_, args := recvAndArgs(cc)
				for _, a := range args {
					if c.An.sameCanon(a, resp) && len(c.P.RepoCallees(i2.(ssa.CallInstruction))) > 0 {
						consumes[i2.Block()] = true
					}
				}
			})
			where := c.P.ShortName(fn) + "@" + c.P.InstrPos(call)
			var leaks []string
			seen := map[*ssa.BasicBlock]bool{}
			var walk func(b *ssa.BasicBlock)
			walk = func(b *ssa.BasicBlock) {
				if seen[b] || !pr.LiveBlock[b.Index] {
					return
				}
				seen[b] = true
				if consumes[b] && b != call.Block() {
					return
				}
				if len(b.Instrs) > 0 {
					if r, ok := b.Instrs[len(b.Instrs)-1].(*ssa.Return); ok {
						leaks = append(leaks, c.P.InstrPos(r))
					}
				}
				// a response without a body has nothing to close: behind `resp.Body != nil` only the non-nil side counts
				if len(b.Instrs) > 0 {
					if iff, ok := b.Instrs[len(b.Instrs)-1].(*ssa.If); ok {
						if bo, ok := iff.Cond.(*ssa.BinOp); ok && (bo.Op == token.NEQ || bo.Op == token.EQL) {
							for _, side := range [][2]ssa.Value{{bo.X, bo.Y}, {bo.Y, bo.X}} {
								u, isLoad := side[0].(*ssa.UnOp)
								if !isLoad || !isNilConst(side[1]) {
									continue
								}
								if fa, ok := u.X.(*ssa.FieldAddr); ok && c.An.sameCanon(fa.X, resp) && fieldName(fa.X.Type(), fa.Field) == "Body" {
									if bo.Op == token.NEQ {
										walk(b.Succs[0])
									} else {
										walk(b.Succs[1])
									}
									return
								}
							}
						}
					}
				}
				for _, s := range b.Succs {
					walk(s)
				}
			}
			walk(call.Block())
			sort.Strings(leaks)
			if len(leaks) > 0 {
				c.Fail(rule, "dropped-response-closed fn="+c.P.ShortName(fn), desc, where+": the function can return at "+strings.Join(uniqStrings(leaks), ", ")+" after a successful origin call without handing the response on or closing its body; an origin that answers after the stale-while-revalidate timeout (through an upstream that does not watch the context) leaves the connection and its two goroutines behind for every such revalidation", where)
			} else {
				c.Pass(rule, "dropped-response-closed fn="+c.P.ShortName(fn), desc, where)
			}
		})
	}
	if n == 0 {
		c.Undecided(rule, "dropped-response-closed", desc, "no function without a response result calls the origin")
	}
}

// readsClockOnly: every function of fns is a small helper without an origin call whose time result is a clock reading
// (it contains a Now call and no origin call).
func (c *Ctx) readsClockOnly(fns []*ssa.Function) bool {
	for _, f := range fns {
		if c.An.MayUpstream(f, false) {
			return false
		}
		has := false
		instrsOf(f, func(in ssa.Instruction) {
			if call, ok := in.(*ssa.Call); ok {
				if (call.Call.IsInvoke() && call.Call.Method.Name() == "Now") || callIsPkgFunc(&call.Call, "time", "Now") {
					has = true
				}
			}
		})
		if !has {
			return false
		}
	}
	return true
}

// ruleMetaLineColumns (C11.21 / C09.29): the entry's meta line is written and read column by column; the column a field
// is written to is the column it is read from. For every field of the entry type that the meta-line writer formats
// (its value reaches an argument of the Fprintf) and the entry parser stores from a column (`parts[k]`), the argument
// position equals k, and no two fields share a column. With the two times in each other's column (or one time in both)
// an entry that went through the store has a response delay of zero or a negative one, and its Age is off by the delay.
func ruleMetaLineColumns(c *Ctx, rule string) {
	if !c.Need(rule, "entryParser") || c.A.EntryT == nil {
		return
	}
	desc := "every field of the entry's meta line is read from the column it is written to"
	st, ok := c.A.EntryT.Underlying().(*types.Struct)
	if !ok {
		c.Undecided(rule, "meta-line-columns", desc, "entry type is not a struct")
		return
	}
	fieldOfLoad := func(v ssa.Value) int {
		f := -1
		c.P.TraceBack(v, TraceOpts{ThroughOps: true, ThroughExtern: true, NoParams: true, NoHeapFields: true}, func(x ssa.Value, _ []int) bool {
			if u, ok := x.(*ssa.UnOp); ok && u.Op == token.MUL {
				if fa, ok := u.X.(*ssa.FieldAddr); ok && isPtrToNamed(fa.X.Type(), c.A.EntryT) {
					f = fa.Field
					return false
				}
			}
			if fl, ok := x.(*ssa.Field); ok && isNamed(fl.X.Type(), c.A.EntryT) {
				f = fl.Field
				return false
			}
			return true
		})
		return f
	}
	// writer: a Fprintf/Sprintf/Appendf in a method of the entry type whose arguments are entry fields
	written := map[int]int{} // field -> column
	var wfn *ssa.Function
	for _, fn := range c.P.RepoFuncs {
		if fn.Pkg == nil || fn.Pkg.Pkg.Path() != c.A.internalPath || isTestOnly(c, fn) || fn.Signature.Recv() == nil {
			continue
		}
		if !isNamed(derefType(fn.Signature.Recv().Type()), c.A.EntryT) {
			continue
		}
		instrsOf(fn, func(in ssa.Instruction) {
			cc := callOf(in)
			if cc == nil || !(callIsPkgFunc(cc, "fmt", "Fprintf") || callIsPkgFunc(cc, "fmt", "Sprintf") || callIsPkgFunc(cc, "fmt", "Appendf")) {
				return
			}
			args := sprintfArgs(cc)
			cols := map[int]int{}
			for i, a := range args {
				if a == nil {
					continue
				}
				if f := fieldOfLoad(a); f >= 0 {
					cols[f] = i
				}
			}
			if len(cols) >= 2 || len(cols) == len(args) && len(args) >= 2 {
				written = cols
				wfn = fn
				// a field written twice shows as a column without a field of its own
				if len(cols) < len(args) {
					written[-1] = len(args)
				}
			}
		})
	}
	// reader: stores into entry fields whose value comes from parts[k]
	read := map[int]int{}
	ep := c.A.F("entryParser")
	for _, fn := range append([]*ssa.Function{ep}, c.reachableFrom(ep)...) {
		instrsOf(fn, func(in ssa.Instruction) {
			s, ok := in.(*ssa.Store)
			if !ok {
				return
			}
			fa, ok := s.Addr.(*ssa.FieldAddr)
			if !ok || !isPtrToNamed(fa.X.Type(), c.A.EntryT) {
				return
			}
			c.P.TraceBack(s.Val, TraceOpts{ThroughOps: true, ThroughExtern: true, NoParams: true, NoHeapFields: true}, func(x ssa.Value, _ []int) bool {
				if u, ok := x.(*ssa.UnOp); ok && u.Op == token.MUL {
					if ia, ok := u.X.(*ssa.IndexAddr); ok {
						if k, ok := constInt(ia.Index); ok {
							if sl, ok := ia.X.Type().Underlying().(*types.Slice); ok {
								if _, ok := sl.Elem().Underlying().(*types.Slice); ok {
									read[fa.Field] = int(k)
									return false
								}
							}
						}
					}
				}
				return true
			})
		})
	}
	if wfn == nil || len(read) < 2 {
		c.Undecided(rule, "meta-line-columns", desc, fmt.Sprintf("meta-line writer found=%v, columns read by the parser=%d", wfn != nil, len(read)))
		return
	}
	var bad []string
	seenCol := map[int]string{}
	for f, k := range read {
		name := st.Field(f).Name()
		if w, ok := written[f]; !ok {
			bad = append(bad, name+" is read from column "+fmt.Sprint(k)+" but not written")
		} else if w != k {
			bad = append(bad, fmt.Sprintf("%s is written to column %d and read from column %d", name, w, k))
		}
		if other, dup := seenCol[k]; dup {
			bad = append(bad, fmt.Sprintf("%s and %s are read from the same column %d", other, name, k))
		}
		seenCol[k] = name
	}
	sort.Strings(bad)
	where := c.P.ShortName(wfn) + " / " + c.P.ShortName(ep)
	if len(bad) > 0 {
		c.Fail(rule, "meta-line-columns", desc, where+": "+strings.Join(bad, "; ")+"; an entry that went through the store has its request and response time mixed up: with a 3 s origin the Age of every hit served from the reloaded entry is off by the delay", where)
		return
	}
	c.Pass(rule, "meta-line-columns", desc, fmt.Sprintf("%s: %d columns", where, len(read)))
}

// ruleLocationResolvedAgainstRequestURL (C07.19): a relative Location / Content-Location names a URI relative to the
// request's target: in the invalidator the receiver of ResolveReference derives from the request URL (a parameter), its
// argument from the parsed field value. The other way round a relative `Location: /doc` resolves to the request URL
// itself, and the named URI keeps its stored response.
func ruleLocationResolvedAgainstRequestURL(c *Ctx, rule string) {
	if !c.Need(rule, "invalidate") {
		return
	}
	desc := "Location values are resolved against the request URL (receiver: request URL, argument: parsed field value)"
	n := 0
	for _, fn := range c.reachableFrom(c.A.F("invalidate")) {
		instrsOf(fn, func(in ssa.Instruction) {
			call, ok := in.(*ssa.Call)
			if !ok || !callIsMethod(&call.Call, "net/url", "URL", "ResolveReference") {
				return
			}
			recv, args := recvAndArgs(&call.Call)
			if len(args) != 1 {
				return
			}
			n++
			fromParse := func(v ssa.Value) bool {
				hit := false
				c.P.TraceBack(v, TraceOpts{NoParams: true, NoHeapFields: true}, func(x ssa.Value, _ []int) bool {
					if ex, ok := x.(*ssa.Extract); ok {
						if cl, ok := ex.Tuple.(*ssa.Call); ok && (callIsPkgFunc(&cl.Call, "net/url", "Parse") || callIsPkgFunc(&cl.Call, "net/url", "ParseRequestURI")) {
							hit = true
							return false
						}
					}
					return true
				})
				return hit
			}
			where := c.P.ShortName(fn) + "@" + c.P.InstrPos(call)
			switch {
			case fromParse(recv) && !fromParse(args[0]):
				c.Fail(rule, "location-resolve-direction", desc, where+": the parsed field value is the base and the request URL the reference; `POST /orders` answered `201` with `Location: /orders/17` resolves to `/orders`, and the stored response of `/orders/17` stays", where)
			case fromParse(args[0]) && !fromParse(recv):
				c.Pass(rule, "location-resolve-direction", desc, where)
			default:
				n-- // another use of ResolveReference (the key function normalises a path with it)
			}
		})
	}
	if n == 0 {
		c.Undecided(rule, "location-resolve-direction", desc, "no ResolveReference call in the invalidator's tree")
	}
}

// ruleWrittenBytesAreTheValue (C14.28): what the file-system backend writes into the entry file is the value it was
// given (as it is, or its encryption): the argument of the file's Write in the writing function derives from the []byte
// parameter of that function, and from nothing else of the same type (the key, another buffer).
func ruleWrittenBytesAreTheValue(c *Ctx, rule string) {
	if c.P.Pkg("store/fscache") == nil {
		return
	}
	desc := "the bytes written to an entry file derive from the value parameter of the writing function"
	n := 0
	for _, fn := range c.fsBackendFuncs() {
		var valParam *ssa.Parameter
		for _, p := range fn.Params {
			if sl, ok := p.Type().Underlying().(*types.Slice); ok {
				if b, ok := sl.Elem().Underlying().(*types.Basic); ok && b.Kind() == types.Byte {
					valParam = p
				}
			}
		}
		if valParam == nil {
			continue
		}
		instrsOf(fn, func(in ssa.Instruction) {
			cc := callOf(in)
			if cc == nil || !callIsMethod(cc, "os", "File", "Write") {
				return
			}
			_, args := recvAndArgs(cc)
			if len(args) != 1 {
				return
			}
			n++
			fromVal, other := false, ""
			c.P.TraceBack(args[0], TraceOpts{ThroughExtern: true, NoParams: true, NoHeapFields: true}, func(x ssa.Value, _ []int) bool {
				switch y := x.(type) {
				case *ssa.Parameter:
					if y == valParam {
						fromVal = true
					} else if y.Parent() == fn && isStringType(y.Type()) {
						other = "parameter " + y.Name()
					}
				case *ssa.Convert:
					if isStringType(y.X.Type()) {
						// a string converted to bytes: follow it (the key)
						return true
					}
				}
				return true
			})
			where := c.P.ShortName(fn) + "@" + c.P.InstrPos(in)
			switch {
			case other != "":
				c.Fail(rule, "written-bytes-are-the-value fn="+c.P.ShortName(fn), desc, where+": the written bytes derive from "+other+"; Get returns something that was never passed to Set for that key", where)
			case !fromVal:
				c.Fail(rule, "written-bytes-are-the-value fn="+c.P.ShortName(fn), desc, where+": the written bytes do not derive from "+valParam.Name(), where)
			default:
				c.Pass(rule, "written-bytes-are-the-value fn="+c.P.ShortName(fn), desc, where)
			}
		})
	}
	if n == 0 {
		c.Undecided(rule, "written-bytes-are-the-value", desc, "no (*os.File).Write in a function of the file-system backend with a []byte parameter")
	}
}

// ruleMatcherComparesStoredWithRequest (C04.23): the single-reference matcher decides by comparing what the reference
// recorded with what the request carries: in every string comparison of that function one of whose sides depends on the
// request's header map, the other side depends on the reference and not on the request's header map. A "stored" value
// that was recomputed from the request compares equal for every request.
func ruleMatcherComparesStoredWithRequest(c *Ctx, rule string) {
	if !c.Need(rule, "varyMatchOne") {
		return
	}
	desc := "the matcher compares the request's value with the value recorded in the reference (which does not depend on the request)"
	fn := c.A.F("varyMatchOne")
	var hdr, ref *ssa.Parameter
	for _, p := range fn.Params {
		if isHTTPHeader(p.Type()) {
			hdr = p
		}
		if isPtrToNamed(p.Type(), c.A.RefT) {
			ref = p
		}
	}
	if hdr == nil || ref == nil {
		c.Undecided(rule, "matcher-compares-stored", desc, "the matcher's header / reference parameters were not recognised")
		return
	}
	depends := func(v ssa.Value) (onHdr, onRef bool) {
		c.P.TraceBack(v, TraceOpts{ThroughOps: true, ThroughExtern: true, NoParams: true, NoHeapFields: true}, func(x ssa.Value, _ []int) bool {
			if x == ssa.Value(hdr) {
				onHdr = true
			}
			if x == ssa.Value(ref) {
				onRef = true
			}
			// the range over the reference's map: next -> range -> the map loaded from the reference
			if ex, ok := x.(*ssa.Extract); ok {
				if nx, ok := ex.Tuple.(*ssa.Next); ok {
					if rg, ok := nx.Iter.(*ssa.Range); ok {
						h, r := false, false
						c.P.TraceBack(rg.X, TraceOpts{ThroughOps: true, NoParams: true, NoHeapFields: true}, func(y ssa.Value, _ []int) bool {
							if y == ssa.Value(hdr) {
								h = true
							}
							if y == ssa.Value(ref) {
								r = true
							}
							return true
						})
						onHdr = onHdr || h
						onRef = onRef || r
					}
				}
			}
			return true
		})
		return
	}
	n := 0
	fns := append([]*ssa.Function{fn}, fn.AnonFuncs...)
	for _, f := range fns {
		instrsOf(f, func(in ssa.Instruction) {
			bo, ok := in.(*ssa.BinOp)
			if !ok || (bo.Op != token.EQL && bo.Op != token.NEQ) || !isStringType(bo.X.Type()) {
				return
			}
			if _, isK := bo.X.(*ssa.Const); isK {
				return
			}
			if _, isK := bo.Y.(*ssa.Const); isK {
				return
			}
			xh, xr := depends(bo.X)
			yh, yr := depends(bo.Y)
			if !xh && !yh {
				return
			}
			n++
			where := c.P.ShortName(f) + "@" + c.P.InstrPos(bo)
			ok2 := (xh && !yh && yr) || (yh && !xh && xr)
			if ok2 {
				c.Pass(rule, "matcher-compares-stored", desc, where)
			} else {
				c.Fail(rule, "matcher-compares-stored", desc, where+": both sides of the comparison depend on the request's header map (or the other side does not come from the reference); the response stored for `Accept-Language: en` matches `Accept-Language: de`", where)
			}
		})
	}
	if n == 0 {
		c.Undecided(rule, "matcher-compares-stored", desc, "no comparison of a request value in "+c.P.ShortName(fn))
	}
}
