package hcv

import (
	"fmt"
	"go/token"
	"go/types"
	"sort"
	"strings"

	"golang.org/x/tools/go/ssa"
)

func init() {
	register(&Property{
		ID:    "C04",
		Title: "A stored response is reused only for a matching variant (Vary)",
		Decides: "the Vary field and every nominated request field are read through all of their field lines; the `*` test is applied to members of the Vary list, not to " +
			"the whole field value; the variant id hashes its inputs with a constant separator between variable parts; the storing side and the matching side reach the same " +
			"single value normaliser; the per-entry matcher returns true only after the iteration over all nominated fields is exhausted and false on a mismatch.",
		NotDecided: "whether each normalisation is meaning-preserving; 64-bit hash collisions; history effects of the variant sort order.",
		Rules: []Rule{
			{ID: "C04.1", Desc: "Vary read through all field lines", Run: func(c *Ctx) { ruleRLIST(c, "C04.1", "Vary") }, MinSites: 1},
			{ID: "C04.2", Desc: "`*` tested per member", Run: ruleC04_2, MinSites: 1},
			{ID: "C04.3", Desc: "variant id input is delimited", Run: ruleC04_3, MinSites: 1},
			{ID: "C04.9", Desc: "the key an entry is stored under is a function of its variant only", Run: func(c *Ctx) { ruleIDPure(c, "C04.9") }, MinSites: 1},
			{ID: "C04.10", Desc: "nominated values survive the JSON index unchanged or through an injective ASCII encoding (a lossy replacement merges distinct values)", Run: func(c *Ctx) { ruleIndexValuesUTF8Safe(c, "C04.10") }, MinSites: 1},
			{ID: "C04.8", Desc: "the Vary resolver hands on every member of the list (a `*` member must reach the index)", Run: ruleC04_8, MinSites: 1},
			{ID: "C04.4", Desc: "one normaliser on both sides", Run: func(c *Ctx) { ruleOneNormaliser(c, "C04.4") }, MinSites: 1},
			{ID: "C04.5", Desc: "all nominated fields compared", Run: ruleC04_5, MinSites: 2},
			{ID: "C04.6", Desc: "nominated request fields read through all lines", Run: func(c *Ctx) { ruleRLIST(c, "C04.6", "<nominated>") }, MinSites: 1},
			{ID: "C04.7", Desc: "matcher position refers to the caller's slice", Run: func(c *Ctx) { ruleMatcherIndex(c, "C04.7") }, MinSites: 1},
			{ID: "C04.11", Desc: "tables of header field names are keyed by canonical names", Run: func(c *Ctx) { ruleHeaderTablesCanonical(c, "C04.11") }, MinSites: 1},
			{ID: "C04.12", Desc: "the 304 merge replaces the stored Vary (only framing fields are kept back), so that the freshened response is filed under what it now varies on", Run: func(c *Ctx) { ruleMergeFilter(c, "C04.12") }, MinSites: 1},
			{ID: "C04.13", Desc: "the matcher's position refers to the caller's list", Run: func(c *Ctx) { ruleMatcherIndexesCallersSlice(c, "C04.13") }, MinSites: 1},
			{ID: "C04.14", Desc: "nominated field names are canonicalised on the store side as on the match side", Run: func(c *Ctx) { ruleVaryNamesCanonical(c, "C04.14") }, MinSites: 1},
			{ID: "C04.15", Desc: "the background revalidation works on a deep copy of the caller's request (its header map included)", Run: func(c *Ctx) { ruleC20_6(c); renameRule(c, "C20.6", "C04.15") }, MinSites: 1},
			{ID: "C04.16", Desc: "what the normaliser keeps of one list member does not share memory with a buffer reused for the next (parameters of a;x=1, b;y=2)", Run: func(c *Ctx) { ruleScratchReuseEscapes(c, "C04.16") }, MinSites: 1},
			{ID: "C04.17", Desc: "the stored reference carries the resolved request values on every path", Run: func(c *Ctx) { ruleVariantResolvedOnEveryPath(c, "C04.17") }, MinSites: 1},
			{ID: "C04.18", Desc: "a nominated value is not cut down to its first pieces by the normaliser (credentials behind the second blank)", Run: func(c *Ctx) { ruleSplitPiecesAllUsed(c, "C04.18") }, MinSites: 1},
			{ID: "C04.19", Desc: "only a response without Vary gets the fixed id (a variant with all nominated fields absent has its own)", Run: func(c *Ctx) { ruleNoVaryIDOnlyWithoutVary(c, "C04.19") }, MinSites: 1},
			{ID: "C04.20", Desc: "the nominated field values are read from the request's header map (store side and match side)", Run: func(c *Ctx) { ruleSelectingValuesFromRequest(c, "C04.20") }, MinSites: 2},
			{ID: "C04.21", Desc: "the entry read and the position handed on use the matcher's result as index into the matched list", Run: func(c *Ctx) { ruleLookupPosition(c, "C04.21") }, MinSites: 2},
			{ID: "C04.22", Desc: "the value yielded for a nominated name does not survive from the previous name (an absent field is recorded as absent)", Run: func(c *Ctx) { ruleResolvedValuePerName(c, "C04.22") }, MinSites: 1},
			{ID: "C04.23", Desc: "the matcher compares the request's value with the value recorded in the reference (which does not depend on the request)", Run: func(c *Ctx) { ruleMatcherComparesStoredWithRequest(c, "C04.23") }, MinSites: 1},
		},
	})
}

// presenceOnly: every use of v is a comparison with the empty string (or a debug reference).
func presenceOnly(v ssa.Value) bool {
	refs := v.Referrers()
	if refs == nil {
		return false
	}
	n := 0
	for _, r := range *refs {
		switch x := r.(type) {
		case *ssa.DebugRef:
		case *ssa.BinOp:
			other := x.Y
			if other == v {
				other = x.X
			}
			if s, ok := constStr(other); ok && s == "" && (x.Op == token.EQL || x.Op == token.NEQ) {
				n++
				continue
			}
			return false
		default:
			return false
		}
	}
	return n > 0
}

// ruleRLIST (shared): a list-valued header is consumed through all of its field lines.
// field is a constant header name, or "<nominated>" for request fields whose name comes from the Vary list.
func ruleRLIST(c *Ctx, rule, field string) {
	n := 0
	bad := 0
	var okSites []string
	var fns []*ssa.Function
	for fn := range c.A.Reach {
		fns = append(fns, fn)
	}
	sort.Slice(fns, func(i, j int) bool { return FuncName(fns[i]) < FuncName(fns[j]) })
	desc := "the " + field + " field is read through all of its field lines"
	for _, fn := range fns {
		instrsOf(fn, func(in ssa.Instruction) {
			where := c.P.ShortName(fn) + "@" + c.P.InstrPos(in)
			if field != "<nominated>" {
				call, ok := in.(*ssa.Call)
				if !ok {
					return
				}
				isGet := callIsMethod(&call.Call, "net/http", "Header", "Get")
				isValues := callIsMethod(&call.Call, "net/http", "Header", "Values")
				if !isGet && !isValues {
					return
				}
				_, args := recvAndArgs(&call.Call)
				k, ok := constStr(args[0])
				if !ok || !strings.EqualFold(k, field) {
					return
				}
				n++
				if isValues {
					okSites = append(okSites, where+" Values")
					return
				}
				// (a presence test through Get is first-line-only as well: an empty first line hides the others)
				bad++
				c.Fail(rule, "first-line-only field="+field+" fn="+c.P.ShortName(fn), desc,
					where+": Header.Get returns only the first field line; a second `"+field+"` line is ignored", where)
				return
			}
			// nominated request fields: a []string obtained from a header map by a non-constant key
			var sl ssa.Value
			switch x := in.(type) {
			case *ssa.Lookup:
				if isHTTPHeader(x.X.Type()) {
					if _, isC := x.Index.(*ssa.Const); !isC {
						sl = x
					}
				}
			case *ssa.Call:
				if callIsMethod(&x.Call, "net/http", "Header", "Values") || callIsMethod(&x.Call, "net/http", "Header", "Get") {
					_, args := recvAndArgs(&x.Call)
					if _, isC := args[0].(*ssa.Const); !isC {
						if callIsMethod(&x.Call, "net/http", "Header", "Get") {
							if !c.nominatedKey(args[0]) {
								return
							}
							n++
							bad++
							c.Fail(rule, "first-line-only field=<nominated> fn="+c.P.ShortName(fn), desc, where+": Header.Get on a nominated request field uses only its first line", where)
							return
						}
						sl = x
					}
				}
			}
			if sl == nil {
				return
			}
			var key ssa.Value
			switch x := sl.(type) {
			case *ssa.Lookup:
				key = x.Index
			case *ssa.Call:
				_, args := recvAndArgs(&x.Call)
				key = args[0]
			}
			if !c.nominatedKey(key) {
				return
			}
			n++
			// uses of the slice: an Index/IndexAddr with constant 0 whose siblings do not consume the rest => first line only
			firstOnly := false
			consumesAll := false
			if refs := sl.Referrers(); refs != nil {
				for _, r := range *refs {
					switch u := r.(type) {
					case *ssa.IndexAddr:
						if k, ok := constInt(u.Index); ok && k == 0 {
							firstOnly = true
						} else {
							consumesAll = true
						}
					case *ssa.Index:
						if k, ok := constInt(u.Index); ok && k == 0 {
							firstOnly = true
						} else {
							consumesAll = true
						}
					case *ssa.Range:
						consumesAll = true
					case *ssa.Call:
						if b, ok := u.Call.Value.(*ssa.Builtin); ok && b.Name() == "len" {
							continue
						}
						consumesAll = true // passed on whole (strings.Join, slices.*, helper)
					case *ssa.Slice:
						consumesAll = true
					}
				}
			}
			if firstOnly && !consumesAll {
				bad++
				c.Fail(rule, "first-line-only field=<nominated> fn="+c.P.ShortName(fn), desc,
					where+": only element [0] of the nominated request field is used; `Accept-Language: en` and `en` + a second line `fr` select the same variant", where)
			} else {
				okSites = append(okSites, where)
			}
		})
	}
	if n == 0 {
		c.Undecided(rule, "vacuity field="+field, desc, "no read of the field found on the exchange")
		return
	}
	if bad == 0 {
		c.Pass(rule, "all-lines field="+field, desc, okSites...)
	}
}

// nominatedKey: the header-map key derives from iterating the members of a Vary value (or the resolved-fields map).
func (c *Ctx) nominatedKey(k ssa.Value) bool {
	hit := false
	c.P.TraceBack(k, TraceOpts{ThroughOps: true, NoHeapFields: true}, func(v ssa.Value, _ []int) bool {
		switch x := v.(type) {
		case *ssa.Extract:
			if _, ok := x.Tuple.(*ssa.Next); ok {
				// key of a range over the resolved map of an index element
				hit = true
				return false
			}
		case *ssa.Parameter:
			// the yield parameter of a range-over-func body: nominated when the function also has a Vary string flowing in
			if x.Parent().Parent() != nil && isStringType(x.Type()) {
				hit = true
				return false
			}
		}
		return !hit
	})
	return hit
}

func ruleC04_2(c *Ctx) {
	if !c.Need("C04.2", "varyMatchOne") {
		return
	}
	fn := c.A.F("varyMatchOne")
	n := 0
	okMember := false
	var whole []string
	for _, f := range c.reachableFrom(fn) {
		if f != fn && f.Parent() != fn {
			continue
		}
		instrsOf(f, func(in ssa.Instruction) {
			b, ok := in.(*ssa.BinOp)
			if !ok || (b.Op != token.EQL && b.Op != token.NEQ) {
				return
			}
			var other ssa.Value
			if s, ok := constStr(b.Y); ok && s == "*" {
				other = b.X
			} else if s, ok := constStr(b.X); ok && s == "*" {
				other = b.Y
			} else {
				return
			}
			n++
			isWhole := false
			isMember := false
			c.P.TraceBack(other, TraceOpts{ThroughOps: true, ThroughExtern: true, NoParams: true, NoHeapFields: true}, func(v ssa.Value, _ []int) bool {
				switch x := v.(type) {
				case *ssa.UnOp:
					if fa, ok := x.X.(*ssa.FieldAddr); ok && isPtrToNamed(fa.X.Type(), c.A.RefT) && isStringType(x.Type()) {
						isWhole = true
						return false
					}
				case *ssa.Extract:
					if _, ok := x.Tuple.(*ssa.Next); ok {
						isMember = true
						return false
					}
				case *ssa.Parameter:
					if x.Parent().Parent() != nil {
						isMember = true // yield parameter of an iteration over the members
						return false
					}
				}
				return true
			})
			if isMember && !isWhole {
				okMember = true
			}
			if isWhole {
				whole = append(whole, c.P.InstrPos(b)+" `"+b.String()+"`")
			}
		})
	}
	desc := "a `*` member of the Vary list makes the entry unmatchable; the test is applied to each member"
	if n == 0 {
		c.Fail("C04.2", "star-per-member", desc, c.P.ShortName(fn)+": no comparison with \"*\" at all; `Vary: *` entries would be matched")
		return
	}
	if okMember {
		c.Pass("C04.2", "star-per-member", desc, c.P.ShortName(fn))
		return
	}
	c.Fail("C04.2", "star-per-member", desc, strings.Join(whole, "; ")+": the whole field value is compared with \"*\"; `Vary: Accept, *` is matched on Accept alone", whole...)
}

// isConstBytes: the []byte argument is built from constants only.
func (an *Analysis) isConstBytes(v ssa.Value) bool {
	allConst := true
	seen := false
	an.P.TraceBack(v, TraceOpts{ThroughOps: true, NoParams: true, NoHeapFields: true}, func(x ssa.Value, _ []int) bool {
		switch y := x.(type) {
		case *ssa.Const:
			seen = true
		case *ssa.Convert, *ssa.Slice, *ssa.Alloc, *ssa.Phi, *ssa.IndexAddr, *ssa.ChangeType:
		case *ssa.UnOp:
			if y.Op != token.MUL {
				allConst = false
			}
		default:
			allConst = false
		}
		return allConst
	})
	return allConst && seen
}

func ruleC04_3(c *Ctx) {
	// the variant hash function: a repo function on the storing path that calls Write on a hash in a loop
	sr := c.A.F("storeResp")
	if sr == nil {
		c.Undecided("C04.3", "anchor", "storing function known", "unresolved")
		return
	}
	var hashFn *ssa.Function
	candidates := map[*ssa.Function]bool{}
	for fn := range c.A.Reach {
		instrsOf(fn, func(in ssa.Instruction) {
			call := callOf(in)
			if call != nil && call.IsInvoke() && call.Method.Name() == "Write" && strings.HasPrefix(call.Value.Type().String(), "hash.") {
				candidates[fn] = true
			}
		})
	}
	for fn := range candidates {
		hashFn = fn
	}
	desc := "the variant id hashes names and values with a constant separator (or a length) between variable parts"
	if len(candidates) != 1 {
		c.Undecided("C04.3", "hash-function", desc, fmt.Sprintf("expected one hashing function on the exchange, found %d", len(candidates)))
		return
	}
	// per block: the sequence of Write calls, V(ariable)/C(onstant)
	badAt := ""
	nW := 0
	for _, b := range hashFn.Blocks {
		var seq []byte
		var first ssa.Instruction
		for _, in := range b.Instrs {
			call := callOf(in)
			if call == nil || !call.IsInvoke() || call.Method.Name() != "Write" {
				continue
			}
			nW++
			if first == nil {
				first = in
			}
			if c.An.isConstBytes(call.Args[0]) {
				seq = append(seq, 'C')
			} else {
				seq = append(seq, 'V')
			}
		}
		if len(seq) == 0 {
			continue
		}
		s := string(seq)
		inLoop := reachableAvoiding(b, b, nil) && blockInCycle(b)
		if strings.Contains(s, "VV") || (inLoop && s[0] == 'V' && s[len(s)-1] == 'V') {
			badAt = fmt.Sprintf("%s: write sequence %q (in loop: %v)", c.P.InstrPos(first), s, inLoop)
		}
	}
	if nW == 0 {
		c.Undecided("C04.3", "hash-delimited", desc, "no hash writes found")
		return
	}
	if badAt != "" {
		c.Fail("C04.3", "hash-delimited", desc, badAt+": two variable parts are hashed back to back; {X-A:\"1\",X-B:\"2\"} and {X-A:\"1X-B2\"} get the same id", c.P.ShortName(hashFn))
		return
	}
	c.Pass("C04.3", "hash-delimited", desc, c.P.ShortName(hashFn)+fmt.Sprintf(": %d writes", nW))
}

func blockInCycle(b *ssa.BasicBlock) bool {
	seen := map[*ssa.BasicBlock]bool{}
	wl := append([]*ssa.BasicBlock{}, b.Succs...)
	for len(wl) > 0 {
		x := wl[len(wl)-1]
		wl = wl[:len(wl)-1]
		if x == b {
			return true
		}
		if seen[x] {
			continue
		}
		seen[x] = true
		wl = append(wl, x.Succs...)
	}
	return false
}

// ruleOneNormaliser (C04.4 / C09.2): storing side and matching side reach the same single value normaliser.
func ruleOneNormaliser(c *Ctx, rule string) {
	if !c.Need(rule, "storeResp", "varyMatchOne") {
		return
	}
	isNorm := func(fn *ssa.Function) bool {
		ps, rs := sigParams(fn), sigResults(fn)
		return fn.Signature.Recv() == nil && fn.Parent() == nil && len(ps) == 2 && len(rs) == 1 && isBasicKind(ps[0], types.String) && isBasicKind(ps[1], types.String) && isBasicKind(rs[0], types.String)
	}
	// top-level value normalisers: func(field, value string) string not called by another such function
	collect := func(root *ssa.Function) []string {
		set := map[string]bool{}
		all := c.reachableFrom(root)
		calledByNorm := map[*ssa.Function]bool{}
		for _, fn := range all {
			if isNorm(fn) {
				for g := range c.P.StaticTree(fn) { // static calls only: a yield inside resolves to unrelated loop bodies
					if g != fn {
						calledByNorm[g] = true
					}
				}
			}
		}
		for _, fn := range all {
			if isNorm(fn) && !calledByNorm[fn] {
				set[c.P.ShortName(fn)] = true
			}
		}
		return sortedKeys(set)
	}
	s1 := collect(c.A.F("storeResp"))
	s2 := collect(c.A.F("varyMatchOne"))
	// the matcher's own call (through its interface field and the forwarding adapter): reachability alone is blurred by
	// the shared list iterator, whose yield is context-insensitive
	direct := map[string]bool{}
	instrsOf(c.A.F("varyMatchOne"), func(in ssa.Instruction) {
		ci, ok := in.(ssa.CallInstruction)
		if !ok {
			return
		}
		for _, cal := range c.P.Callees(ci) {
			for _, t := range append([]*ssa.Function{cal}, c.An.AdapterTargets(cal)...) {
				if isNorm(t) {
					direct[c.P.ShortName(t)] = true
				}
			}
		}
	})
	if len(direct) > 0 {
		s2 = sortedKeys(direct)
	}
	desc := "the storing side and the matching side normalise nominated request values with the same single function"
	ex := []string{"store side: " + strings.Join(s1, ","), "match side: " + strings.Join(s2, ",")}
	if len(s1) == 1 && len(s2) == 1 && s1[0] == s2[0] {
		c.Pass(rule, "one-normaliser", desc, ex...)
		return
	}
	c.Fail(rule, "one-normaliser", desc, strings.Join(ex, "; ")+": values stored under one normalisation are compared under another; variants never match or cross-match", ex...)
}

func ruleC04_5(c *Ctx) {
	if !c.Need("C04.5", "varyMatchOne") {
		return
	}
	fn := c.A.F("varyMatchOne")
	// the iteration over the resolved map
	var next *ssa.Next
	instrsOf(fn, func(in ssa.Instruction) {
		if nx, ok := in.(*ssa.Next); ok && !nx.IsString {
			next = nx
		}
	})
	desc := "the matcher returns true only after every nominated field was compared, and false on the first mismatch"
	if next == nil {
		c.Undecided("C04.5", "matcher-loop", desc, c.P.ShortName(fn)+": no iteration over the resolved fields map")
		return
	}
	// the loop-exit edge: If on extract #0 of next
	var doneBlock *ssa.BasicBlock
	for _, b := range fn.Blocks {
		iff, ok := b.Instrs[len(b.Instrs)-1].(*ssa.If)
		if !ok {
			continue
		}
		if ex, ok := iff.Cond.(*ssa.Extract); ok && ex.Tuple == next && ex.Index == 0 {
			doneBlock = b.Succs[1]
		}
	}
	if doneBlock == nil {
		c.Undecided("C04.5", "matcher-loop", desc, "loop exit not found")
		return
	}
	okTrue := true
	nTrue, nFalseInLoop := 0, 0
	instrsOf(fn, func(in ssa.Instruction) {
		r, ok := in.(*ssa.Return)
		if !ok || len(r.Results) != 1 {
			return
		}
		if b, isC := constBool(r.Results[0]); isC {
			if b {
				nTrue++
				if !(r.Block() == doneBlock || doneBlock.Dominates(r.Block())) {
					okTrue = false
				}
			} else if blockInCycleWith(r.Block(), next.Block()) || dominatedByLoop(r.Block(), next.Block(), doneBlock) {
				nFalseInLoop++
			}
		} else {
			okTrue = false
		}
	})
	if nTrue == 0 || !okTrue {
		c.Fail("C04.5", "true-after-exhaustion", desc, c.P.ShortName(fn)+": a `return true` is reachable before the iteration is exhausted (or the result is not a constant); only the first nominated field would be compared")
	} else {
		c.Pass("C04.5", "true-after-exhaustion", desc, fmt.Sprintf("%s: %d `return true` after the loop", c.P.ShortName(fn), nTrue))
	}
	// mismatch => false: inside the loop a comparison between the (normalised) request value and the stored value leads to return false
	cmpOK := false
	instrsOf(fn, func(in ssa.Instruction) {
		b, ok := in.(*ssa.BinOp)
		if !ok || (b.Op != token.NEQ && b.Op != token.EQL) || !isStringType(b.X.Type()) {
			return
		}
		fromStored := func(v ssa.Value) bool {
			hit := false
			c.P.TraceBack(v, TraceOpts{NoParams: true, NoHeapFields: true}, func(x ssa.Value, _ []int) bool {
				if ex, ok := x.(*ssa.Extract); ok && ex.Tuple == next && ex.Index == 2 {
					hit = true
				}
				return !hit
			})
			return hit
		}
		fromReq := func(v ssa.Value) bool {
			return c.An.dependsOnCall(v, func(cc *ssa.Call) bool {
				return cc.Call.IsInvoke() && strings.HasPrefix(cc.Call.Method.Name(), "Normalize")
			}) ||
				func() bool {
					hit := false
					c.P.TraceBack(v, TraceOpts{ThroughOps: true, NoParams: true, NoHeapFields: true}, func(x ssa.Value, _ []int) bool {
						if lk, ok := x.(*ssa.Lookup); ok && isHTTPHeader(lk.X.Type()) {
							hit = true
						}
						return !hit
					})
					return hit
				}()
		}
		if (fromStored(b.X) && fromReq(b.Y)) || (fromStored(b.Y) && fromReq(b.X)) {
			cmpOK = true
		}
	})
	if cmpOK && nFalseInLoop > 0 {
		c.Pass("C04.5", "mismatch-returns-false", "each nominated field's request value is compared with the stored value; a mismatch returns false", c.P.ShortName(fn))
	} else {
		c.Fail("C04.5", "mismatch-returns-false", "each nominated field's request value is compared with the stored value; a mismatch returns false",
			fmt.Sprintf("%s: comparison found=%v, return false inside loop=%d", c.P.ShortName(fn), cmpOK, nFalseInLoop))
	}
}

func blockInCycleWith(b, head *ssa.BasicBlock) bool {
	return reachableAvoiding(b, head, nil) && reachableAvoiding(head, b, nil)
}

func dominatedByLoop(b, head, done *ssa.BasicBlock) bool {
	return head.Dominates(b) && !(done == b || done.Dominates(b))
}

// ruleC04_8: the matcher rejects an entry through the "*" key of its resolved map (C04.2), so the resolver on the storing
// side must hand on every member of the Vary list: in the function that yields (name, value) pairs, no path from the
// start of one member's turn to its end avoids the yield.
func ruleC04_8(c *Ctx) {
	if !c.Need("C04.8", "storeResp") {
		return
	}
	desc := "every member of the Vary list is yielded by the resolver (none is skipped)"
	n := 0
	for _, f := range c.reachableFrom(c.A.F("storeResp")) {
		if f.Pkg == nil && f.Parent() == nil {
			continue
		}
		// a 2-string yield parameter (own or captured) called in f
		var sites []ssa.Instruction
		instrsOf(f, func(in ssa.Instruction) {
			call := callOf(in)
			if call == nil || call.IsInvoke() || call.StaticCallee() != nil || len(call.Args) != 2 {
				return
			}
			sig, ok := call.Value.Type().Underlying().(*types.Signature)
			if !ok || sig.Params().Len() != 2 || !isStringType(sig.Params().At(0).Type()) || !isStringType(sig.Params().At(1).Type()) || sig.Results().Len() != 1 || !isBoolType(sig.Results().At(0).Type()) {
				return
			}
			// the value must be a yield parameter of an enclosing iterator, not a local function
			isYield := false
			for _, r := range c.P.Roots(call.Value, TraceOpts{NoParams: true}) {
				// (the parameter of an iterator: of a function literal, or of a method handed out as a bound method value)
				if _, ok := r.(*ssa.Parameter); ok {
					isYield = true
				}
			}
			if !isYield {
				return
			}
			// only the resolver: the second yielded value derives from a request header lookup
			fromHeader := false
			c.P.TraceBack(call.Args[1], TraceOpts{ThroughOps: true, ThroughExtern: true, NoParams: true, NoHeapFields: true}, func(v ssa.Value, _ []int) bool {
				// a request header looked up under a computed (nominated) name
				if lk, ok := v.(*ssa.Lookup); ok && isHTTPHeader(lk.X.Type()) {
					if _, isC := lk.Index.(*ssa.Const); !isC {
						fromHeader = true
					}
				}
				if cc, ok := v.(*ssa.Call); ok && (callIsMethod(&cc.Call, "net/http", "Header", "Values") || callIsMethod(&cc.Call, "net/http", "Header", "Get")) {
					_, args := recvAndArgs(&cc.Call)
					if _, isC := args[0].(*ssa.Const); !isC {
						fromHeader = true
					}
				}
				return !fromHeader
			})
			if fromHeader {
				sites = append(sites, in)
			}
		})
		for _, y := range sites {
			n++
			where := c.P.ShortName(f) + "@" + c.P.InstrPos(y)
			bad := ""
			if !blockInCycle(y.Block()) {
				// the function body is one member's turn (range-over-func loop body, or a per-member helper)
				pr := c.An.Prune(f, nil)
				r := c.An.MustPass(pr, nil, func(in ssa.Instruction) bool { return in == y })
				if !r.OK {
					bad = c.P.InstrPos(r.Missing[0]) + ": this return ends a member's turn without yielding it"
				}
			} else {
				// an ordinary loop: from the loop head around to the loop head without passing the yield
				yb := y.Block()
				for _, h := range f.Blocks {
					if !blockInCycle(h) || !h.Dominates(yb) || !reachableAvoiding(yb, h, nil) {
						continue
					}
					for _, s := range h.Succs {
						if s != yb && reachableAvoiding(s, h, yb) && reachableAvoiding(h, s, nil) && (s.Dominates(yb) || reachableAvoiding(s, yb, nil)) {
							// s is inside the loop (can come back to h) and can do so avoiding the yield block
							if reachableAvoiding(s, h, yb) && blockInLoopOf(s, h) {
								bad = c.P.ShortName(f) + ": the loop at " + c.P.Pos(h.Instrs[0].Pos()) + " can start its next round without yielding (continue)"
							}
						}
					}
				}
			}
			if bad == "" {
				c.Pass("C04.8", "resolver-yields-every-member fn="+c.P.ShortName(f), desc, where)
			} else {
				c.Fail("C04.8", "resolver-yields-every-member fn="+c.P.ShortName(f), desc, bad+"; `Vary: Accept-Encoding, *` is then stored with Accept-Encoding alone and served as a HIT without validation", where)
			}
		}
	}
	if n == 0 {
		c.Undecided("C04.8", "resolver-yields-every-member", desc, "no (name, value) yield fed by a request header found on the storing path")
	}
}

// blockInLoopOf: b lies on a cycle through h.
func blockInLoopOf(b, h *ssa.BasicBlock) bool {
	return b == h || reachableAvoiding(b, h, nil) && reachableAvoiding(h, b, nil)
}
