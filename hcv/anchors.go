package hcv

import (
	"fmt"
	"go/token"
	"go/types"
	"sort"
	"strings"

	"golang.org/x/tools/go/ssa"
)

// DirInfo describes a directive accessor method.
type DirInfo struct {
	Class     string // "rq" or "rsT" (response-typed map; provenance decides rs/up)
	Directive string
	Tuple     bool // returns (x, bool)
}

// Anchors are the program entities the rules talk about, resolved on every run (DESIGN §3.2).
type Anchors struct {
	p *Prog

	Root          *ssa.Function // (*transport).RoundTrip
	TransportT    *types.Named
	Reach         map[*ssa.Function]bool // repo functions reachable from Root (call, go, defer)
	ReachFg       map[*ssa.Function]bool // reachable without crossing a `go`
	ReqDirT       *types.Named
	RespDirT      *types.Named
	DirAcc        map[*ssa.Function]DirInfo
	RawValue      map[*ssa.Function]bool // Value() methods on raw string types
	EntryT        *types.Named           // internal.Response
	EntryData     int                    // field index of *http.Response in EntryT
	FreshT        *types.Named
	FreshStale    int
	FreshAge      int
	FreshLife     int
	AgeT          *types.Named
	RefT          *types.Named // internal.ResponseRef
	RefIDField    int          // field of RefT holding the response id (read by RoundTrip for the entry lookup)
	RevalCtxT     *types.Named
	ConnT         *types.Named // store/driver.Conn
	Fn            map[string]*ssa.Function
	FnSet         map[string][]*ssa.Function
	Unresolved    []string
	Log           []string
	roleOf        map[*ssa.Function]string
	Forwarders    map[*ssa.Function][]*ssa.Function // body function -> role functions that only forward to it
	internalPath  string
	driverPath    string
	fscachePath   string
	memcachePath  string
	registryPath  string
	expapiPath    string
	NetHTTP       string
	storeIfaceImp map[string][]*ssa.Function // "Get","Set","Delete" -> concrete Conn methods instantiated in non-test code
}

func (a *Anchors) fail(format string, args ...any) {
	a.Unresolved = append(a.Unresolved, fmt.Sprintf(format, args...))
}

func (a *Anchors) note(role string, fn *ssa.Function) {
	a.Log = append(a.Log, fmt.Sprintf("%s = %s", role, a.p.ShortName(fn)))
}

// F returns the function resolved for role (nil when unresolved; the unresolved list fails the check).
func (a *Anchors) F(role string) *ssa.Function { return a.Fn[role] }

// IsRoleFunc: fn is the function holding the role's body or one of the forwarders in front of it.
func (a *Anchors) IsRoleFunc(fn *ssa.Function, role string) bool {
	return fn != nil && a.roleOf[fn] == role
}

// StaticTree: the repo functions reachable from root through static calls.
func (p *Prog) StaticTree(root *ssa.Function) map[*ssa.Function]bool {
	seen := map[*ssa.Function]bool{}
	var rec func(f *ssa.Function)
	rec = func(f *ssa.Function) {
		if f == nil || seen[f] || !p.IsRepoFunc(f) {
			return
		}
		seen[f] = true
		instrsOf(f, func(in ssa.Instruction) {
			if c := callOf(in); c != nil {
				if sc := c.StaticCallee(); sc != nil {
					rec(sc)
				}
			}
		})
	}
	rec(root)
	return seen
}

// forwardTarget: when fn does nothing but call one repo function with its own parameters (or state loaded from
// its receiver) and return that call's results unchanged, the callee; otherwise nil.
func (p *Prog) forwardTarget(fn *ssa.Function) *ssa.Function {
	if len(fn.Blocks) != 1 {
		return nil
	}
	var call *ssa.Call
	var ret *ssa.Return
	for _, in := range fn.Blocks[0].Instrs {
		switch x := in.(type) {
		case *ssa.Call:
			if call != nil {
				return nil
			}
			call = x
		case *ssa.FieldAddr, *ssa.Extract, *ssa.DebugRef:
		case *ssa.UnOp:
			if x.Op != token.MUL {
				return nil
			}
		case *ssa.Return:
			ret = x
		default:
			return nil
		}
	}
	if call == nil || ret == nil {
		return nil
	}
	sc := call.Call.StaticCallee()
	if sc == nil || !p.IsRepoFunc(sc) || len(sc.Blocks) == 0 || sc.Parent() != nil || sc == fn {
		return nil
	}
	if len(ret.Results) == 1 {
		if ret.Results[0] != ssa.Value(call) {
			return nil
		}
	} else {
		for i, r := range ret.Results {
			ex, ok := r.(*ssa.Extract)
			if !ok || ex.Tuple != ssa.Value(call) || ex.Index != i {
				return nil
			}
		}
	}
	// every parameter of fn (besides the receiver) is handed on
	passed := map[ssa.Value]bool{}
	for _, a := range call.Call.Args {
		switch y := a.(type) {
		case *ssa.Parameter:
			passed[y] = true
		case *ssa.UnOp:
			fa, ok := y.X.(*ssa.FieldAddr)
			if !ok {
				return nil
			}
			if _, ok := fa.X.(*ssa.Parameter); !ok {
				return nil
			}
		default:
			return nil
		}
	}
	for i, prm := range fn.Params {
		if i == 0 && fn.Signature.Recv() != nil {
			continue
		}
		if !passed[prm] {
			return nil
		}
	}
	return sc
}

func sigParams(fn *ssa.Function) []types.Type {
	var out []types.Type
	ps := fn.Signature.Params()
	for i := 0; i < ps.Len(); i++ {
		out = append(out, ps.At(i).Type())
	}
	return out
}

func sigResults(fn *ssa.Function) []types.Type {
	var out []types.Type
	rs := fn.Signature.Results()
	for i := 0; i < rs.Len(); i++ {
		out = append(out, rs.At(i).Type())
	}
	return out
}

func isNamed(t types.Type, n *types.Named) bool {
	if n == nil {
		return false
	}
	x := namedOf(t)
	return x != nil && x.Origin() == n.Origin()
}

func isPtrToNamed(t types.Type, n *types.Named) bool {
	pt, ok := types.Unalias(t).(*types.Pointer)
	return ok && isNamed(pt.Elem(), n)
}

func isBasicKind(t types.Type, k types.BasicKind) bool {
	b, ok := t.Underlying().(*types.Basic)
	return ok && b.Kind() == k
}

// callsTo reports whether fn contains a call for which pred holds.
func callsWhere(fn *ssa.Function, pred func(c *ssa.CallCommon) bool) bool {
	found := false
	instrsOf(fn, func(in ssa.Instruction) {
		if c := callOf(in); c != nil && pred(c) {
			found = true
		}
	})
	return found
}

// headerCallWithKey: fn contains http.Header.<method>(key-const == key).
func headerCallWithKey(fn *ssa.Function, method, key string) bool {
	return callsWhere(fn, func(c *ssa.CallCommon) bool {
		if !callIsMethod(c, "net/http", "Header", method) {
			return false
		}
		_, args := recvAndArgs(c)
		if len(args) == 0 {
			return false
		}
		s, ok := constStr(args[0])
		return ok && strings.EqualFold(s, key)
	})
}

// ResolveAnchors finds every anchor; unresolved ones are listed in a.Unresolved.
func ResolveAnchors(p *Prog) *Anchors {
	a := &Anchors{p: p, Fn: map[string]*ssa.Function{}, FnSet: map[string][]*ssa.Function{}, DirAcc: map[*ssa.Function]DirInfo{}, RawValue: map[*ssa.Function]bool{}, roleOf: map[*ssa.Function]string{}, Forwarders: map[*ssa.Function][]*ssa.Function{}}
	a.internalPath = p.ModPath + "/internal"
	a.driverPath = p.ModPath + "/store/driver"
	a.fscachePath = p.ModPath + "/store/fscache"
	a.memcachePath = p.ModPath + "/store/memcache"
	a.registryPath = p.ModPath + "/store/internal/registry"
	a.expapiPath = p.ModPath + "/store/expapi"

	rootPkg := p.Pkg("")
	if rootPkg == nil {
		a.fail("root package %s not loaded", p.ModPath)
		return a
	}
	// --- Root: NewTransport -> concrete type -> RoundTrip
	nt := rootPkg.Func("NewTransport")
	if nt == nil {
		a.fail("exported API NewTransport not found")
		return a
	}
	var tt *types.Named
	for _, r := range p.Roots(firstReturn(nt, 0), TraceOpts{}) {
		if al, ok := r.(*ssa.Alloc); ok {
			if n := namedOf(derefType(al.Type())); n != nil {
				tt = n
			}
		}
	}
	if tt == nil {
		a.fail("concrete transport type behind NewTransport not found")
		return a
	}
	a.TransportT = tt
	a.Root = p.SSA.LookupMethod(types.NewPointer(tt), tt.Obj().Pkg(), "RoundTrip")
	if a.Root == nil {
		a.fail("RoundTrip method of %s not found", tt)
		return a
	}
	a.note("R", a.Root)

	// --- reachability
	a.Reach = map[*ssa.Function]bool{}
	a.ReachFg = map[*ssa.Function]bool{}
	var walk func(fn *ssa.Function, fg bool)
	walk = func(fn *ssa.Function, fg bool) {
		if !p.IsRepoFunc(fn) {
			return
		}
		if fg {
			if a.ReachFg[fn] {
				return
			}
			a.ReachFg[fn] = true
		} else if a.Reach[fn] {
			return
		}
		a.Reach[fn] = true
		// a package-level function variable initialised from library code that wraps a repo function
		// (`var f = sync.OnceValues(func() ...)`): calling f runs the wrapped function
		instrsOf(fn, func(in ssa.Instruction) {
			u, ok := in.(*ssa.UnOp)
			if !ok {
				return
			}
			g, ok := u.X.(*ssa.Global)
			if !ok {
				return
			}
			if _, isSig := derefType(g.Type()).Underlying().(*types.Signature); !isSig {
				return
			}
			for _, f := range p.RepoFuncs {
				if f.Name() != "init" {
					continue
				}
				instrsOf(f, func(i2 ssa.Instruction) {
					st, ok := i2.(*ssa.Store)
					if !ok || st.Addr != ssa.Value(g) {
						return
					}
					call, ok := st.Val.(*ssa.Call)
					if !ok {
						return
					}
					for _, arg := range call.Call.Args {
						if _, isSig := arg.Type().Underlying().(*types.Signature); !isSig {
							continue
						}
						fns, _ := p.funcValueRoots(arg, nil)
						for _, cb := range fns {
							walk(cb, fg)
						}
					}
				})
			}
		})
		n := p.CG.Nodes[fn]
		if n == nil {
			return
		}
		for _, e := range n.Out {
			_, isGo := e.Site.(*ssa.Go)
			if p.Cfg.UseCHA && p.neverAllocatedRecv(e.Callee.Func) {
				continue
			}
			walk(e.Callee.Func, fg && !isGo)
			// a function value handed to code outside the repository (slices.SortFunc, slices.IndexFunc,
			// sync.Once.Do, ...) is assumed to be called by it
			if e.Site != nil && !p.IsRepoFunc(e.Callee.Func) {
				for _, arg := range e.Site.Common().Args {
					if _, isSig := arg.Type().Underlying().(*types.Signature); !isSig {
						continue
					}
					fns, _ := p.funcValueRoots(arg, nil)
					for _, f := range fns {
						walk(f, fg && !isGo)
					}
				}
			}
		}
	}
	walk(a.Root, true)

	// --- driver.Conn
	if dp := p.Pkg("store/driver"); dp != nil {
		if t := dp.Type("Conn"); t != nil {
			a.ConnT = namedOf(t.Type())
		}
	}
	if a.ConnT == nil {
		a.fail("store/driver.Conn not found")
	}

	ip := p.Pkg("internal")
	if ip == nil {
		a.fail("internal package not loaded")
		return a
	}

	// --- directive map types and their accessors
	type tinfo struct {
		n    *types.Named
		dirs map[string]bool
	}
	var dirTypes []tinfo
	for _, m := range ip.Members {
		tn, ok := m.(*ssa.Type)
		if !ok {
			continue
		}
		n := namedOf(tn.Type())
		if n == nil {
			continue
		}
		mp, ok := n.Underlying().(*types.Map)
		if !ok || !isStringType(mp.Key()) || !isStringType(mp.Elem()) {
			continue
		}
		ti := tinfo{n: n, dirs: map[string]bool{}}
		ms := p.SSA.MethodSets.MethodSet(n)
		for i := 0; i < ms.Len(); i++ {
			fn := p.SSA.MethodValue(ms.At(i))
			if fn == nil || len(fn.Blocks) == 0 {
				continue
			}
			res := sigResults(fn)
			okShape := len(res) == 1 && isBoolType(res[0]) || len(res) == 2 && isBoolType(res[1])
			if !okShape || len(sigParams(fn)) != 0 {
				continue
			}
			dir := directiveOf(p, fn)
			if dir == "" {
				continue
			}
			ti.dirs[dir] = true
			a.DirAcc[fn] = DirInfo{Directive: dir, Tuple: len(res) == 2}
		}
		if len(ti.dirs) > 0 {
			dirTypes = append(dirTypes, ti)
		}
	}
	for _, ti := range dirTypes {
		switch {
		case ti.dirs["only-if-cached"] || ti.dirs["max-stale"] || ti.dirs["min-fresh"]:
			a.ReqDirT = ti.n
		case ti.dirs["must-revalidate"] || ti.dirs["immutable"]:
			a.RespDirT = ti.n
		}
	}
	if a.ReqDirT == nil || a.RespDirT == nil {
		a.fail("request/response directive map types not identified")
		return a
	}
	for fn, di := range a.DirAcc {
		rt := derefType(fn.Signature.Recv().Type())
		if isNamed(rt, a.ReqDirT) {
			di.Class = "rq"
		} else if isNamed(rt, a.RespDirT) {
			di.Class = "rsT"
		} else {
			delete(a.DirAcc, fn)
			continue
		}
		a.DirAcc[fn] = di
	}
	a.Log = append(a.Log, fmt.Sprintf("directive types: request=%s response=%s accessors=%d", a.ReqDirT.Obj().Name(), a.RespDirT.Obj().Name(), len(a.DirAcc)))

	// --- raw Value() methods: method on a named string type returning (x, bool)
	for _, m := range ip.Members {
		tn, ok := m.(*ssa.Type)
		if !ok {
			continue
		}
		n := namedOf(tn.Type())
		if n == nil || !isStringType(n) {
			continue
		}
		ms := p.SSA.MethodSets.MethodSet(n)
		for i := 0; i < ms.Len(); i++ {
			fn := p.SSA.MethodValue(ms.At(i))
			if fn == nil {
				continue
			}
			res := sigResults(fn)
			if len(res) == 2 && isBoolType(res[1]) && len(sigParams(fn)) == 0 {
				a.RawValue[fn] = true
			}
		}
	}

	all := p.RepoFuncs
	pick := func(role string, scope func(fn *ssa.Function) bool, pred func(fn *ssa.Function) bool) *ssa.Function {
		var found []*ssa.Function
		for _, fn := range all {
			if len(fn.Blocks) == 0 || fn.Synthetic != "" && !strings.Contains(fn.Synthetic, "instance") {
				continue
			}
			if scope != nil && !scope(fn) {
				continue
			}
			if pred(fn) {
				found = append(found, fn)
			}
		}
		if len(found) != 1 {
			var names []string
			for _, f := range found {
				names = append(names, p.ShortName(f))
			}
			a.fail("role %s: expected exactly 1 function, found %d %v", role, len(found), names)
			return nil
		}
		// a role function that only forwards to another repo function (method -> function taking the receiver's
		// state explicitly) is analysed in the function that holds the body; both carry the role
		target := found[0]
		for i := 0; i < 3; i++ {
			t := p.forwardTarget(target)
			if t == nil {
				break
			}
			a.roleOf[target] = role
			a.Forwarders[t] = append(a.Forwarders[t], target)
			target = t
		}
		a.Fn[role] = target
		a.roleOf[target] = role
		a.note(role, target)
		return target
	}
	inReach := func(fn *ssa.Function) bool { return a.Reach[fn] }
	inInternal := func(fn *ssa.Function) bool {
		return fn.Pkg != nil && fn.Pkg.Pkg.Path() == a.internalPath && fn.Parent() == nil && !isMockRecv(fn)
	}

	// parse functions
	pick("parseReq", inInternal, func(fn *ssa.Function) bool {
		ps, rs := sigParams(fn), sigResults(fn)
		return fn.Signature.Recv() == nil && len(ps) == 1 && isHTTPHeader(ps[0]) && len(rs) == 1 && isNamed(rs[0], a.ReqDirT)
	})
	pick("parseResp", inInternal, func(fn *ssa.Function) bool {
		ps, rs := sigParams(fn), sigResults(fn)
		return fn.Signature.Recv() == nil && len(ps) == 1 && isHTTPHeader(ps[0]) && len(rs) == 1 && isNamed(rs[0], a.RespDirT)
	})

	// entry parser and entry type
	ep := pick("entryParser", inInternal, func(fn *ssa.Function) bool {
		rs := sigResults(fn)
		if len(rs) != 2 || !isErrorType(rs[1]) {
			return false
		}
		if _, ok := types.Unalias(rs[0]).(*types.Pointer); !ok {
			return false
		}
		return callsWhere(fn, func(c *ssa.CallCommon) bool { return callIsPkgFunc(c, "net/http", "ReadResponse") })
	})
	if ep != nil {
		a.EntryT = namedOf(derefType(sigResults(ep)[0]))
		if st, ok := a.EntryT.Underlying().(*types.Struct); ok {
			a.EntryData = -1
			for i := 0; i < st.NumFields(); i++ {
				if isHTTPResponsePtr(st.Field(i).Type()) {
					a.EntryData = i
				}
			}
			if a.EntryData < 0 {
				a.fail("entry type %s has no *http.Response field", a.EntryT)
			}
		}
	}
	if a.EntryT == nil {
		return a
	}

	// freshness function and type
	ff := pick("freshness", inReach, func(fn *ssa.Function) bool {
		ps, rs := sigParams(fn), sigResults(fn)
		return len(ps) == 3 && isPtrToNamed(ps[0], a.EntryT) && isNamed(ps[1], a.ReqDirT) && isNamed(ps[2], a.RespDirT) && len(rs) == 1 && fn.Parent() == nil
	})
	if ff != nil {
		a.FreshT = namedOf(derefType(sigResults(ff)[0]))
		if st, ok := a.FreshT.Underlying().(*types.Struct); ok {
			a.FreshStale, a.FreshAge, a.FreshLife = -1, -1, -1
			for i := 0; i < st.NumFields(); i++ {
				ft := st.Field(i).Type()
				switch {
				case isBoolType(ft):
					a.FreshStale = i
				case typeIs(ft, "time", "Duration"):
					a.FreshLife = i
				default:
					if pt, ok := ft.(*types.Pointer); ok {
						if n := namedOf(pt.Elem()); n != nil {
							a.FreshAge = i
							a.AgeT = n
						}
					}
				}
			}
			if a.FreshStale < 0 || a.FreshAge < 0 || a.FreshLife < 0 {
				a.fail("freshness type %s: expected one bool, one duration and one *Age field", a.FreshT)
			}
		}
	}

	pick("currentAge", inReach, func(fn *ssa.Function) bool {
		if fn.Parent() != nil {
			return false
		}
		if a.AgeT == nil {
			return headerCallWithKey(fn, "Get", "Age")
		}
		// the function that produces the age record; the Age field may be read in a helper below it
		rs := sigResults(fn)
		if len(rs) != 1 || !(isPtrToNamed(rs[0], a.AgeT) || isNamed(rs[0], a.AgeT)) {
			return false
		}
		for g := range p.StaticTree(fn) {
			if headerCallWithKey(g, "Get", "Age") || headerCallWithKey(g, "Values", "Age") {
				return true
			}
		}
		return false
	})
	pick("heuristic", inReach, func(fn *ssa.Function) bool {
		rs := sigResults(fn)
		return fn.Parent() == nil && len(rs) == 1 && typeIs(rs[0], "time", "Duration") && headerCallWithKey(fn, "Get", "Last-Modified")
	})
	pick("cond", inReach, func(fn *ssa.Function) bool { return headerCallWithKey(fn, "Set", "If-None-Match") })
	pick("ageSet", inReach, func(fn *ssa.Function) bool { return headerCallWithKey(fn, "Set", "Age") })
	pick("statusApply", inReach, func(fn *ssa.Function) bool { return headerCallWithKey(fn, "Set", "X-Httpcache-Status") })
	ht := pick("hopTable", inReach, func(fn *ssa.Function) bool {
		found := false
		instrsOf(fn, func(in ssa.Instruction) {
			if mu, ok := in.(*ssa.MapUpdate); ok {
				if s, ok := constStr(mu.Key); ok && s == "Transfer-Encoding" {
					found = true
				}
			}
		})
		// ... or the fixed part of the table lives in a package-level map that the function hands out / clones
		if !found && len(sigResults(fn)) == 1 {
			if _, isMap := sigResults(fn)[0].Underlying().(*types.Map); isMap {
				for _, g := range globalMapsLoadedIn(fn) {
					for _, k := range globalMapLiteralKeys(g) {
						if k == "Transfer-Encoding" {
							found = true
						}
					}
				}
			}
		}
		return found
	})
	if ht != nil {
		callsHT := func(fn *ssa.Function) bool {
			return callsWhere(fn, func(c *ssa.CallCommon) bool { return c.StaticCallee() == ht })
		}
		writesHeader := func(fn *ssa.Function) bool {
			upd := false
			instrsOf(fn, func(in ssa.Instruction) {
				if mu, ok := in.(*ssa.MapUpdate); ok && isHTTPHeader(mu.Map.Type()) {
					upd = true
				}
				if c := callOf(in); c != nil && (callIsMethod(c, "net/http", "Header", "Set") || callIsMethod(c, "net/http", "Header", "Add")) {
					upd = true
				}
			})
			return upd
		}
		pick("stripHop", inReach, func(fn *ssa.Function) bool {
			if !callsHT(fn) || writesHeader(fn) {
				return false // (a function that also writes header fields is the 304 merge)
			}
			del := false
			instrsOf(fn, func(in ssa.Instruction) {
				if c := callOf(in); c != nil {
					if b, ok := c.Value.(*ssa.Builtin); ok && b.Name() == "delete" {
						del = true
					}
					if callIsMethod(c, "net/http", "Header", "Del") {
						del = true
					}
					// maps.DeleteFunc(header, pred)
					if sc := c.StaticCallee(); sc != nil && len(c.Args) == 2 && isHTTPHeader(c.Args[0].Type()) {
						n := sc.String()
						if o := sc.Origin(); o != nil {
							n = o.String()
						}
						if strings.HasPrefix(n, "maps.DeleteFunc") {
							del = true
						}
					}
				}
			})
			return del
		})
		pick("merge304", inReach, func(fn *ssa.Function) bool {
			if !callsHT(fn) {
				return false
			}
			upd := false
			instrsOf(fn, func(in ssa.Instruction) {
				if mu, ok := in.(*ssa.MapUpdate); ok && isHTTPHeader(mu.Map.Type()) {
					upd = true
				}
				if c := callOf(in); c != nil && (callIsMethod(c, "net/http", "Header", "Set") || callIsMethod(c, "net/http", "Header", "Add")) {
					upd = true
				}
			})
			return upd
		})
	}
	pick("canStore", inReach, func(fn *ssa.Function) bool {
		ps, rs := sigParams(fn), sigResults(fn)
		return fn.Signature.Recv() == nil && fn.Parent() == nil && len(ps) == 3 && isHTTPResponsePtr(ps[0]) && isNamed(ps[1], a.ReqDirT) && isNamed(ps[2], a.RespDirT) && len(rs) == 1 && isBoolType(rs[0])
	})
	gateWired := func() map[*ssa.Function]bool {
		out := map[*ssa.Function]bool{}
		instrsOf(a.Root, func(in ssa.Instruction) {
			ci, ok := in.(ssa.CallInstruction)
			if !ok || !ci.Common().IsInvoke() {
				return
			}
			sig, ok := ci.Common().Method.Type().(*types.Signature)
			if !ok || sig.Params().Len() != 1 || sig.Results().Len() != 1 || !isHTTPRequestPtr(sig.Params().At(0).Type()) || !isBoolType(sig.Results().At(0).Type()) {
				return
			}
			for _, cal := range p.Callees(ci) {
				out[cal] = true
				if len(cal.Blocks) == 1 {
					for _, i2 := range cal.Blocks[0].Instrs {
						if c2, ok := i2.(*ssa.Call); ok {
							for _, t := range p.Callees(c2) {
								out[t] = true
							}
						}
					}
				}
			}
		})
		return out
	}()
	pick("gate", inReach, func(fn *ssa.Function) bool {
		ps, rs := sigParams(fn), sigResults(fn)
		return gateWired[fn] && fn.Signature.Recv() == nil && fn.Parent() == nil && len(ps) == 1 && isHTTPRequestPtr(ps[0]) && len(rs) == 1 && isBoolType(rs[0])
	})
	strPred := func(fn *ssa.Function) bool {
		ps, rs := sigParams(fn), sigResults(fn)
		return fn.Signature.Recv() == nil && fn.Parent() == nil && len(ps) == 1 && isBasicKind(ps[0], types.String) && len(rs) == 1 && isBoolType(rs[0])
	}
	intPred := func(fn *ssa.Function) bool {
		ps, rs := sigParams(fn), sigResults(fn)
		return fn.Signature.Recv() == nil && fn.Parent() == nil && len(ps) == 1 && isBasicKind(ps[0], types.Int) && len(rs) == 1 && isBoolType(rs[0])
	}
	pick("unsafe", inReach, func(fn *ssa.Function) bool {
		if !strPred(fn) {
			return false
		}
		cs := stringConstsIn(fn)
		return cs["POST"] || cs["GET"] || cs["PUT"]
	})
	pick("nonError", inReach, func(fn *ssa.Function) bool {
		if !intPred(fn) {
			return false
		}
		cs := intConstsIn(fn)
		return cs[200] && (cs[400] || cs[399]) && len(cs) <= 3
	})
	pick("sieStatus", inReach, func(fn *ssa.Function) bool {
		if !intPred(fn) {
			return false
		}
		// a status predicate whose constants all lie in the 5xx range (a list of codes or a range test)
		cs := intConstsIn(fn)
		if len(cs) == 0 {
			return false
		}
		for k := range cs {
			if k < 500 || k > 599 {
				return false
			}
		}
		return true
	})
	var statusTables []*ssa.Function
	for _, fn := range all {
		if inReach(fn) && intPred(fn) {
			cs := intConstsIn(fn)
			if cs[200] && cs[404] && cs[410] {
				statusTables = append(statusTables, fn)
			}
		}
	}
	a.FnSet["statusTables"] = statusTables
	staticTree := p.StaticTree
	if ff != nil {
		ft := staticTree(ff)
		pick("heurStatus", nil, func(fn *ssa.Function) bool {
			for _, st := range statusTables {
				if st == fn {
					return ft[fn] // the status table consulted (directly or through a helper) by the freshness function
				}
			}
			return false
		})
	}
	if cs := a.Fn["canStore"]; cs != nil {
		ct := staticTree(cs)
		pick("understood", nil, func(fn *ssa.Function) bool {
			for _, st := range statusTables {
				if st == fn && fn != a.Fn["heurStatus"] {
					return ct[fn]
				}
			}
			return false
		})
	}
	pick("siePolicy", inReach, func(fn *ssa.Function) bool {
		ps, rs := sigParams(fn), sigResults(fn)
		return fn.Signature.Recv() != nil && len(ps) == 2 && isPtrToNamed(ps[0], a.FreshT) && fn.Signature.Variadic() && len(rs) == 1 && isBoolType(rs[0])
	})
	// wired functions: what RoundTrip's interface calls resolve to (through forwarding adapters)
	wired := func(sigOK func(*types.Signature) bool) map[*ssa.Function]bool {
		out := map[*ssa.Function]bool{}
		instrsOf(a.Root, func(in ssa.Instruction) {
			ci, ok := in.(ssa.CallInstruction)
			if !ok || !ci.Common().IsInvoke() {
				return
			}
			sig, ok := ci.Common().Method.Type().(*types.Signature)
			if !ok || !sigOK(sig) {
				return
			}
			for _, cal := range p.Callees(ci) {
				out[cal] = true
				if len(cal.Blocks) == 1 {
					for _, i2 := range cal.Blocks[0].Instrs {
						if c2, ok := i2.(*ssa.Call); ok {
							for _, t := range p.Callees(c2) {
								out[t] = true
							}
						}
					}
				}
			}
		})
		return out
	}
	keyWired := wired(func(sig *types.Signature) bool {
		return sig.Params().Len() == 1 && sig.Results().Len() == 1 && ptrTo(sig.Params().At(0).Type(), "net/url", "URL") && isStringType(sig.Results().At(0).Type())
	})
	pick("urlKey", inReach, func(fn *ssa.Function) bool {
		ps, rs := sigParams(fn), sigResults(fn)
		return keyWired[fn] && fn.Signature.Recv() == nil && fn.Parent() == nil && len(ps) == 1 && ptrTo(ps[0], "net/url", "URL") && len(rs) == 1 && isBasicKind(rs[0], types.String)
	})
	pick("sameOrigin", inReach, func(fn *ssa.Function) bool {
		ps, rs := sigParams(fn), sigResults(fn)
		return fn.Parent() == nil && len(ps) == 2 && ptrTo(ps[0], "net/url", "URL") && ptrTo(ps[1], "net/url", "URL") && len(rs) == 1 && isBoolType(rs[0])
	})
	pick("synth504", func(fn *ssa.Function) bool { return a.Reach[fn] && fn.Pkg == rootPkg }, func(fn *ssa.Function) bool {
		return callsWhere(fn, func(c *ssa.CallCommon) bool { return callIsPkgFunc(c, "net/http", "ReadResponse") })
	})
	pick("cloneReq", inReach, func(fn *ssa.Function) bool {
		ps, rs := sigParams(fn), sigResults(fn)
		if !(len(ps) == 1 && isHTTPRequestPtr(ps[0]) && len(rs) == 1 && isHTTPRequestPtr(rs[0])) {
			return false
		}
		alloc := false
		instrsOf(fn, func(in ssa.Instruction) {
			if al, ok := in.(*ssa.Alloc); ok && al.Heap && isHTTPRequestPtr(al.Type()) {
				alloc = true
			}
		})
		return alloc
	})

	// response cache layer: concrete methods that wrap driver.Conn
	connCall := func(fn *ssa.Function, name string) bool {
		return callsWhere(fn, func(c *ssa.CallCommon) bool {
			return c.IsInvoke() && c.Method.Name() == name && isNamed(c.Value.Type(), a.ConnT)
		})
	}
	reaches := func(fn *ssa.Function, pred func(c *ssa.CallCommon) bool) bool {
		seen := map[*ssa.Function]bool{}
		var rec func(f *ssa.Function) bool
		rec = func(f *ssa.Function) bool {
			if seen[f] || !p.IsRepoFunc(f) {
				return false
			}
			seen[f] = true
			hit := false
			instrsOf(f, func(in ssa.Instruction) {
				if hit {
					return
				}
				c := callOf(in)
				if c == nil {
					return
				}
				if pred(c) {
					hit = true
					return
				}
				if ci, ok := in.(ssa.CallInstruction); ok {
					for _, cal := range p.RepoCallees(ci) {
						if rec(cal) {
							hit = true
							return
						}
					}
				}
			})
			return hit
		}
		return rec(fn)
	}
	inInternalReach := func(fn *ssa.Function) bool {
		return a.Reach[fn] && fn.Pkg != nil && fn.Pkg.Pkg.Path() == a.internalPath
	}
	pick("readEntry", inInternalReach, func(fn *ssa.Function) bool {
		return connCall(fn, "Get") && callsWhere(fn, func(c *ssa.CallCommon) bool { return c.StaticCallee() == ep })
	})
	pick("readIndex", inInternalReach, func(fn *ssa.Function) bool {
		return connCall(fn, "Get") && callsWhere(fn, func(c *ssa.CallCommon) bool { return callIsPkgFunc(c, "encoding/json", "Unmarshal") })
	})
	pick("writeEntry", inInternalReach, func(fn *ssa.Function) bool {
		return connCall(fn, "Set") && reaches(fn, func(c *ssa.CallCommon) bool { return callIsPkgFunc(c, "net/http/httputil", "DumpResponse") })
	})
	pick("writeIndex", inInternalReach, func(fn *ssa.Function) bool {
		return connCall(fn, "Set") && callsWhere(fn, func(c *ssa.CallCommon) bool { return callIsPkgFunc(c, "encoding/json", "Marshal") })
	})
	pick("deleteKey", inInternalReach, func(fn *ssa.Function) bool { return connCall(fn, "Delete") })
	if a.Fn["readIndex"] != nil {
		rs := sigResults(a.Fn["readIndex"])
		if len(rs) == 2 {
			if sl, ok := rs[0].Underlying().(*types.Slice); ok {
				a.RefT = namedOf(derefType(sl.Elem()))
			}
		}
		if a.RefT == nil {
			a.fail("index element type not identified from %s", p.ShortName(a.Fn["readIndex"]))
		}
	}
	we, wi := a.Fn["writeEntry"], a.Fn["writeIndex"]
	if we != nil && wi != nil {
		callsFn := func(fn, target *ssa.Function) bool {
			hit := false
			instrsOf(fn, func(in ssa.Instruction) {
				if ci, ok := in.(ssa.CallInstruction); ok {
					for _, c := range p.Callees(ci) {
						if c == target {
							hit = true
						}
					}
				}
			})
			return hit
		}
		pick("storeResp", inInternalReach, func(fn *ssa.Function) bool { return fn.Parent() == nil && callsFn(fn, we) && callsFn(fn, wi) })
		if dk := a.Fn["deleteKey"]; dk != nil {
			pick("invalidate", inInternalReach, func(fn *ssa.Function) bool {
				ps := sigParams(fn)
				return fn.Parent() == nil && len(ps) == 4 && ptrTo(ps[0], "net/url", "URL") && isHTTPHeader(ps[1])
			})
		}
	}
	pick("varyMatch", inInternalReach, func(fn *ssa.Function) bool {
		ps, rs := sigParams(fn), sigResults(fn)
		return fn.Parent() == nil && len(ps) == 2 && isHTTPHeader(ps[1]) && len(rs) == 2 && isBasicKind(rs[0], types.Int) && isBoolType(rs[1])
	})
	pick("varyMatchOne", inInternalReach, func(fn *ssa.Function) bool {
		ps, rs := sigParams(fn), sigResults(fn)
		// (reference, request header) -> bool, possibly preceded by explicitly passed state
		n := len(ps)
		return fn.Parent() == nil && n >= 2 && n <= 3 && isPtrToNamed(ps[n-2], a.RefT) && isHTTPHeader(ps[n-1]) && len(rs) == 1 && isBoolType(rs[0])
	})
	pick("validationHandler", inInternalReach, func(fn *ssa.Function) bool {
		ps, rs := sigParams(fn), sigResults(fn)
		return fn.Parent() == nil && len(ps) == 4 && isHTTPRequestPtr(ps[1]) && isHTTPResponsePtr(ps[2]) && isErrorType(ps[3]) && len(rs) == 2
	})
	if vh := a.Fn["validationHandler"]; vh != nil {
		a.RevalCtxT = namedOf(sigParams(vh)[0])
	}
	// the id field of an index element: what RoundTrip passes to the entry read
	a.RefIDField = -1
	if re := a.Fn["readEntry"]; re != nil && a.RefT != nil {
		instrsOf(a.Root, func(in ssa.Instruction) {
			ci, ok := in.(ssa.CallInstruction)
			if !ok {
				return
			}
			hit := false
			for _, cal := range p.Callees(ci) {
				if cal == re {
					hit = true
				}
			}
			if !hit {
				return
			}
			_, args := recvAndArgs(ci.Common())
			if len(args) == 0 {
				return
			}
			p.TraceBack(args[0], TraceOpts{NoParams: true, NoHeapFields: true}, func(v ssa.Value, _ []int) bool {
				if u, ok := v.(*ssa.UnOp); ok {
					if fa, ok := u.X.(*ssa.FieldAddr); ok && isPtrToNamed(fa.X.Type(), a.RefT) {
						a.RefIDField = fa.Field
						return false
					}
				}
				return true
			})
		})
		if a.RefIDField >= 0 {
			a.Log = append(a.Log, fmt.Sprintf("index element id field = %s.%s", a.RefT.Obj().Name(), a.RefT.Underlying().(*types.Struct).Field(a.RefIDField).Name()))
		}
	}
	sort.Strings(a.Unresolved)
	return a
}

func isMockRecv(fn *ssa.Function) bool {
	if fn.Signature.Recv() == nil {
		return false
	}
	n := namedOf(derefType(fn.Signature.Recv().Type()))
	return n != nil && strings.HasPrefix(n.Obj().Name(), "Mock")
}

func firstReturn(fn *ssa.Function, idx int) ssa.Value {
	for _, b := range fn.Blocks {
		if r, ok := b.Instrs[len(b.Instrs)-1].(*ssa.Return); ok && idx < len(r.Results) {
			return r.Results[idx]
		}
	}
	return nil
}

// directiveOf extracts the directive token an accessor looks up: the unique string constant that reaches a map lookup
// key, directly or through a static helper's parameter.
func directiveOf(p *Prog, fn *ssa.Function) string {
	found := map[string]bool{}
	instrsOf(fn, func(in ssa.Instruction) {
		switch x := in.(type) {
		case *ssa.Lookup:
			if s, ok := constStr(x.Index); ok {
				found[s] = true
			}
		case *ssa.Call:
			if sc := x.Call.StaticCallee(); sc != nil && p.IsRepoFunc(sc) {
				for i, arg := range x.Call.Args {
					s, ok := constStr(arg)
					if !ok || i >= len(sc.Params) {
						continue
					}
					// the parameter must be used as a lookup key in the helper
					usedAsKey := false
					if refs := sc.Params[i].Referrers(); refs != nil {
						for _, r := range *refs {
							if lk, ok := r.(*ssa.Lookup); ok && lk.Index == sc.Params[i] {
								usedAsKey = true
							}
						}
					}
					if usedAsKey {
						found[s] = true
					}
				}
			}
		}
	})
	if len(found) != 1 {
		return ""
	}
	for s := range found {
		return s
	}
	return ""
}
