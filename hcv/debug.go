package hcv

import (
	"fmt"

	"golang.org/x/tools/go/ssa"
)

// DebugStrip prints why IsStripFields accepts/rejects dynamic calls in functions reachable from R.
func DebugStrip(p *Prog, a *Anchors) {
	an := NewAnalysis(p, a)
	for fn := range a.Reach {
		instrsOf(fn, func(in ssa.Instruction) {
			call, ok := in.(*ssa.Call)
			if !ok || call.Call.IsInvoke() || call.Call.StaticCallee() != nil || len(call.Call.Args) != 1 {
				return
			}
			mc, ok := call.Call.Args[0].(*ssa.MakeClosure)
			if !ok {
				return
			}
			body := mc.Fn.(*ssa.Function)
			fmt.Println("dyn call", p.ShortName(fn), in.String())
			instrsOf(body, func(i2 ssa.Instruction) {
				if c2 := callOf(i2); c2 != nil && callIsMethod(c2, "net/http", "Header", "Del") {
					r, _ := recvAndArgs(c2)
					fmt.Println("   Del recv class:", an.HeaderClass(r))
				}
			})
			cnt := 0
			p.TraceBack(call.Call.Value, TraceOpts{ThroughOps: true, ThroughExtern: true, NoHeapFields: true}, func(x ssa.Value, _ []int) bool {
				cnt++
				if cnt < 40 {
					fmt.Printf("      visit %T %s in %v\n", x, x.String(), x.Parent())
				}
				return true
			})
			fmt.Println("   visited", cnt)
			fmt.Println("   dep:", an.dependsOnCallFull(call.Call.Value, func(c *ssa.Call) bool {
				ok := an.isAccessorCall(c, "rs", "no-cache")
				if sc := c.Call.StaticCallee(); sc != nil {
					if _, isAcc := an.A.DirAcc[sc]; isAcc {
						fmt.Println("      saw accessor", c.String(), ok)
					}
				}
				return ok
			}))
		})
	}
}
