package hcv

import (
	"fmt"
	"strings"

	"golang.org/x/tools/go/ssa"
)

// DebugStrip prints why IsStripFields accepts/rejects dynamic calls in functions reachable from R.
func DebugStrip(p *Prog, a *Anchors) {
	an := NewAnalysis(p, a)
	for fn := range a.Reach {
		instrsOf(fn, func(in ssa.Instruction) {
			call, ok := in.(*ssa.Call)
			if !ok || call.Call.IsInvoke() || call.Call.StaticCallee() != nil || len(call.Call.Args) != 1 {
				return
			}
			mc, ok := call.Call.Args[0].(*ssa.MakeClosure)
			if !ok {
				return
			}
			body := mc.Fn.(*ssa.Function)
			fmt.Println("dyn call", p.ShortName(fn), in.String())
			instrsOf(body, func(i2 ssa.Instruction) {
				if c2 := callOf(i2); c2 != nil && callIsMethod(c2, "net/http", "Header", "Del") {
					r, _ := recvAndArgs(c2)
					fmt.Println("   Del recv class:", an.HeaderClass(r))
				}
			})
			cnt := 0
			p.TraceBack(call.Call.Value, TraceOpts{ThroughOps: true, ThroughExtern: true, NoHeapFields: true}, func(x ssa.Value, _ []int) bool {
				cnt++
				if cnt < 40 {
					fmt.Printf("      visit %T %s in %v\n", x, x.String(), x.Parent())
				}
				return true
			})
			fmt.Println("   visited", cnt)
			fmt.Println("   dep:", an.dependsOnCallFull(call.Call.Value, func(c *ssa.Call) bool {
				ok := an.isAccessorCall(c, "rs", "no-cache")
				if sc := c.Call.StaticCallee(); sc != nil {
					if _, isAcc := an.A.DirAcc[sc]; isAcc {
						fmt.Println("      saw accessor", c.String(), ok)
					}
				}
				return ok
			}))
		})
	}
}

// DebugPath prints one call path from the function named `from` to an instruction satisfying pred (foreground only).
func DebugPath(p *Prog, a *Anchors, from string, pred func(ssa.Instruction) bool) {
	var start *ssa.Function
	for _, fn := range p.RepoFuncs {
		if p.ShortName(fn) == from {
			start = fn
		}
	}
	if start == nil {
		fmt.Println("no such function", from)
		return
	}
	type node struct {
		fn   *ssa.Function
		path []string
	}
	seen := map[*ssa.Function]bool{}
	wl := []node{{start, []string{p.ShortName(start)}}}
	for len(wl) > 0 {
		n := wl[0]
		wl = wl[1:]
		if seen[n.fn] {
			continue
		}
		seen[n.fn] = true
		found := false
		instrsOf(n.fn, func(in ssa.Instruction) {
			if found {
				return
			}
			if pred(in) {
				fmt.Println("PATH:", n.path, "->", p.InstrPos(in), in.String())
				found = true
				return
			}
			ci, ok := in.(ssa.CallInstruction)
			if !ok {
				return
			}
			if _, isGo := in.(*ssa.Go); isGo {
				return
			}
			for _, c := range p.RepoCallees(ci) {
				wl = append(wl, node{c, append(append([]string{}, n.path...), p.InstrPos(in)+":"+p.ShortName(c))})
			}
		})
		if found {
			return
		}
	}
	fmt.Println("no path")
}

// DebugAdds lists the additions on time.Duration values in functions reachable from RoundTrip.
func DebugAdds(p *Prog, a *Anchors) {
	for _, fn := range p.RepoFuncs {
		if !a.Reach[fn] {
			continue
		}
		instrsOf(fn, func(in ssa.Instruction) {
			if b, ok := in.(*ssa.BinOp); ok && (b.Op.String() == "+" || b.Op.String() == "*") && typeIs(b.Type(), "time", "Duration") {
				fmt.Println(p.ShortName(fn), p.InstrPos(in), b.String())
			}
		})
	}
}

// DebugReach prints the functions reachable (rule-level reachability) from the named function.
func DebugReach(p *Prog, a *Anchors, name string) {
	c := &Ctx{P: p, A: a, An: NewAnalysis(p, a)}
	for _, fn := range p.RepoFuncs {
		if p.ShortName(fn) == name {
			for _, g := range c.reachableFrom(fn) {
				fmt.Println("  ", p.ShortName(g))
			}
		}
	}
}

// DebugRespStores lists stores into fields of *http.Response in functions reachable from RoundTrip.
func DebugRespStores(p *Prog, a *Anchors) {
	for _, fn := range p.RepoFuncs {
		if !a.Reach[fn] {
			continue
		}
		instrsOf(fn, func(in ssa.Instruction) {
			if st, ok := in.(*ssa.Store); ok {
				if fa, ok := st.Addr.(*ssa.FieldAddr); ok && isHTTPResponsePtr(fa.X.Type()) {
					fmt.Println(p.ShortName(fn), p.InstrPos(in), fieldName(fa.X.Type(), fa.Field), "base:", fmt.Sprintf("%T", fa.X))
				}
			}
		})
	}
}

// DebugDyn prints, for every dynamic call in functions whose name contains pat, the refined callees.
func DebugDyn(p *Prog, pat string) {
	for _, fn := range p.RepoFuncs {
		if !strings.Contains(FuncName(fn), pat) {
			continue
		}
		instrsOf(fn, func(in ssa.Instruction) {
			if ci, ok := in.(ssa.CallInstruction); ok && isDynamicFuncCall(ci.Common()) {
				var names []string
				for _, c := range p.Callees(ci) {
					names = append(names, p.ShortName(c))
				}
				fmt.Println(p.ShortName(fn), p.InstrPos(in), in.String(), "->", names)
			}
		})
	}
}

// DebugVTA prints the raw VTA out-edges of functions whose name contains pat.
func DebugVTA(p *Prog, pat string) {
	for fn, n := range p.VTA.Nodes {
		if fn == nil || !strings.Contains(FuncName(fn), pat) {
			continue
		}
		for _, e := range n.Out {
			fmt.Println(FuncName(fn), "->", FuncName(e.Callee.Func), len(p.VTA.Nodes[e.Callee.Func].Out))
		}
	}
}
