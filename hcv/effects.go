package hcv

import (
	"fmt"
	"go/token"
	"strings"

	"golang.org/x/tools/go/ssa"
)

// pureStdPkgs: standard-library packages whose functions neither mutate their (non-receiver-local) arguments nor
// touch shared state, for the purposes of E6. Header.Set/Add/Del and friends are excluded explicitly below.
var pureStdPkgs = map[string]bool{
	"strings": true, "strconv": true, "net/textproto": true, "time": true, "maps": true, "slices": true, "iter": true,
	"errors": true, "fmt": true, "unicode": true, "unicode/utf8": true, "cmp": true, "math": true, "bytes": true,
	"unique": true, "hash/fnv": true, "encoding/base64": true, "path/filepath": true, "sort": true, "log/slog": true,
	"context": true, "net/url": true, "runtime": true, "sync": true, "sync/atomic": true, "os": false,
}

var impureStd = map[string]bool{
	"(net/http.Header).Set": true, "(net/http.Header).Add": true, "(net/http.Header).Del": true,
	"slices.Sort": true, "slices.SortFunc": true, "slices.SortStableFunc": true, "slices.Reverse": true, "sort.Slice": true, "sort.Strings": true,
	"slices.CompactFunc": true, "slices.Compact": true, "slices.Delete": true, "slices.Insert": true,
}

var pureHTTP = map[string]bool{
	"(net/http.Header).Get": true, "(net/http.Header).Values": true, "(net/http.Header).Clone": true,
	"net/http.CanonicalHeaderKey": true, "net/http.ParseTime": true, "net/http.StatusText": true,
	"(*net/http.Request).Context": true,
}

// localRoot reports whether addr is rooted at an allocation of the current function (or a closure cell of its parent
// that is itself an allocation there): writes through it do not escape the function's own data.
func localRoot(v ssa.Value) bool {
	for i := 0; i < 10; i++ {
		switch x := v.(type) {
		case *ssa.Alloc:
			return true
		case *ssa.MakeMap, *ssa.MakeSlice, *ssa.MakeChan:
			return true
		case *ssa.FieldAddr:
			v = x.X
		case *ssa.IndexAddr:
			v = x.X
		case *ssa.Slice:
			v = x.X
		case *ssa.UnOp:
			if x.Op != token.MUL {
				return false
			}
			// load of a pointer from a local cell: the pointee may be shared; be conservative unless the cell holds a local alloc
			if al, ok := x.X.(*ssa.Alloc); ok {
				_ = al
				return false
			}
			return false
		case *ssa.FreeVar:
			// closure cell of the enclosing function: local to the (parent, closure) pair
			return true
		case *ssa.Call:
			// result of append/make-like calls on local data
			if b, ok := x.Call.Value.(*ssa.Builtin); ok && b.Name() == "append" && len(x.Call.Args) > 0 {
				v = x.Call.Args[0]
				continue
			}
			if sc := x.Call.StaticCallee(); sc != nil {
				name := sc.String()
				if o := sc.Origin(); o != nil {
					name = o.String()
				}
				switch name {
				case "slices.AppendSeq", "slices.Grow", "slices.Clip":
					if len(x.Call.Args) > 0 {
						v = x.Call.Args[0]
						continue
					}
				case "slices.Collect", "slices.Sorted", "maps.Collect", "slices.Clone", "maps.Clone", "strings.Split", "strings.Fields", "strings.SplitN":
					return true // freshly allocated result
				}
			}
			return false
		case *ssa.Phi:
			for _, e := range x.Edges {
				if !localRoot(e) {
					return false
				}
			}
			return true
		default:
			return false
		}
	}
	return false
}

// EffectFree returns "" when fn writes no memory it did not allocate, performs no channel operation, spawns nothing and
// calls only effect-free functions; otherwise the first reason found.
func (an *Analysis) EffectFree(fn *ssa.Function) string {
	return an.effectFree(fn, map[*ssa.Function]bool{})
}

func (an *Analysis) effectFree(fn *ssa.Function, seen map[*ssa.Function]bool) string {
	if seen[fn] {
		return ""
	}
	seen[fn] = true
	if len(fn.Blocks) == 0 {
		return "no body: " + fn.String()
	}
	why := ""
	set := func(in ssa.Instruction, msg string) {
		if why == "" {
			why = fmt.Sprintf("%s: %s", an.P.InstrPos(in), msg)
		}
	}
	instrsOf(fn, func(in ssa.Instruction) {
		if why != "" {
			return
		}
		switch x := in.(type) {
		case *ssa.Store:
			if !localRoot(x.Addr) {
				set(in, "store to non-local memory "+x.Addr.String())
			}
		case *ssa.MapUpdate:
			if !localRoot(x.Map) {
				set(in, "update of non-local map "+x.Map.String())
			}
		case *ssa.Send:
			set(in, "channel send")
		case *ssa.Go:
			set(in, "go statement")
		case *ssa.Select:
			set(in, "select")
		case *ssa.Panic:
			if in.Pos().IsValid() {
				set(in, "explicit panic")
			}
		case ssa.CallInstruction:
			c := x.Common()
			if b, ok := c.Value.(*ssa.Builtin); ok {
				switch b.Name() {
				case "delete":
					if len(c.Args) > 0 && !localRoot(c.Args[0]) {
						set(in, "delete on non-local map")
					}
				case "close":
					set(in, "close of channel")
				case "copy":
					if len(c.Args) > 0 && !localRoot(c.Args[0]) {
						set(in, "copy into non-local slice")
					}
				}
				return
			}
			callees := an.P.Callees(x)
			if len(callees) == 0 {
				// call of a func-typed parameter (yield) inside an iterator: the effect belongs to the caller's body
				if _, isParam := c.Value.(*ssa.Parameter); isParam && !c.IsInvoke() {
					return
				}
				if _, isFV := c.Value.(*ssa.FreeVar); isFV {
					return
				}
				set(in, "call with unresolved callee "+c.String())
				return
			}
			if _, isParam := c.Value.(*ssa.Parameter); isParam && !c.IsInvoke() {
				return // yield-style callback: judged where the callback is defined
			}
			if !c.IsInvoke() && an.isCapturedFuncParam(c.Value) {
				return // the same callback, called from a local closure that captured it (`flush := func() bool { … yield(p) }`)
			}
			for _, cal := range callees {
				if an.P.IsRepoFunc(cal) {
					if w := an.effectFree(cal, seen); w != "" {
						set(in, "calls "+an.P.ShortName(cal)+" -> "+w)
						return
					}
					continue
				}
				name := cal.String()
				if o := cal.Origin(); o != nil {
					name = o.String()
				}
				if impureStd[name] {
					// in-place library mutation: fine on local data
					if len(c.Args) > 0 && localRoot(c.Args[0]) {
						continue
					}
					set(in, "calls mutating library function "+name)
					return
				}
				if pureHTTP[name] {
					continue
				}
				pkg := ""
				if cal.Pkg != nil {
					pkg = cal.Pkg.Pkg.Path()
				} else if o := cal.Origin(); o != nil && o.Pkg != nil {
					pkg = o.Pkg.Pkg.Path()
				} else if cal.Object() != nil && cal.Object().Pkg() != nil {
					pkg = cal.Object().Pkg().Path()
				}
				if pkg == "" && cal.Synthetic != "" {
					continue // wrappers/thunks
				}
				if pureStdPkgs[pkg] {
					continue
				}
				set(in, "calls "+strings.TrimSpace(name)+" (package "+pkg+" not in the effect-free allow-list)")
				return
			}
		}
	})
	return why
}

// isCapturedFuncParam: v is the value of a func-typed parameter of an enclosing function, read through the cell a
// closure captured it in.
func (an *Analysis) isCapturedFuncParam(v ssa.Value) bool {
	u, ok := v.(*ssa.UnOp)
	if !ok {
		return false
	}
	fv, ok := u.X.(*ssa.FreeVar)
	if !ok {
		return false
	}
	binds := an.P.freeVarBindings(fv)
	if len(binds) == 0 {
		return false
	}
	for _, b := range binds {
		switch x := b.(type) {
		case *ssa.Alloc:
			stores := an.P.cellStores(x)
			if len(stores) == 0 {
				return false
			}
			for _, st := range stores {
				if _, isP := st.Val.(*ssa.Parameter); !isP {
					return false
				}
			}
		case *ssa.FreeVar:
			// captured again by a deeper closure
			if !an.isCapturedFuncParam(&ssa.UnOp{X: x}) {
				return false
			}
		default:
			return false
		}
	}
	return true
}
