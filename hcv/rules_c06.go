package hcv

import (
	"fmt"
	"go/constant"
	"sort"
	"strings"

	"golang.org/x/tools/go/ssa"
)

func init() {
	register(&Property{
		ID:    "C06",
		Title: "Responses that must not be stored never reach the store",
		Decides: "for status cells 1xx, 206, 304 no entry/index write for an origin response is reachable (evaluator as wired + guards at the store sites); " +
			"no-store on either side, must-understand with a status outside the understood table, and absence of any freshness information with a non-heuristic status " +
			"make the evaluator return false on every path; every store site of an origin response is dominated by a positive evaluator answer and by the GET/no-Range gate; " +
			"a failed entry write prevents the index write.",
		NotDecided:  "which bytes reach the store; request method spelling; body-read failures inside net/http/httputil.",
		Assumptions: []string{"store sites are reached only under the method/Range gate (checked in C06.5), so method==GET is assumed at them"},
		Rules: []Rule{
			{ID: "C06.1", Desc: "status cells 1xx/206/304 never reach the store", Run: ruleC06_1, MinSites: 3},
			{ID: "C06.2", Desc: "no-store on either side", Run: ruleC06_2, MinSites: 2},
			{ID: "C06.3", Desc: "must-understand with an unknown status", Run: ruleC06_3, MinSites: 1},
			{ID: "C06.4", Desc: "no freshness information and not heuristically cacheable", Run: ruleC06_4, MinSites: 1},
			{ID: "C06.5", Desc: "method/Range gate dominates every store access", Run: func(c *Ctx) { ruleGate(c, "C06.5") }, MinSites: 3},
			{ID: "C06.6", Desc: "every store of an origin response is under a positive evaluator answer", Run: ruleC06_6, MinSites: 2},
			{ID: "C06.7", Desc: "entry-write error gates the index write", Run: ruleC06_7, MinSites: 1},
			{ID: "C06.8", Desc: "the evaluator receives the judged response's directives and the request's directives on every path", Run: func(c *Ctx) { ruleEvaluatorDirectives(c, "C06.8") }, MinSites: 2},
			{ID: "C06.10", Desc: "the 304 write-back is skipped when the request or the 304 carries no-store", Run: ruleC06_10, MinSites: 1},
			{ID: "C06.9", Desc: "storability depends on the request only through no-store", Run: func(c *Ctx) { ruleEvaluatorRequestDirectives(c, "C06.9") }, MinSites: 1},
			{ID: "C06.11", Desc: "no-store is not hidden by a backslash outside a quoted-string", Run: func(c *Ctx) { ruleEscapeOnlyInQuotes(c, "C06.11") }, MinSites: 1},
			{ID: "C06.12", Desc: "in the list splitter an escaped character is consumed before quotes and commas are interpreted (no-store behind ext=\"a\\\"b\")", Run: func(c *Ctx) { ruleC12_7(c); renameRule(c, "C12.7", "C06.12") }, MinSites: 1},
			{ID: "C06.13", Desc: "Cache-Control is read through all of its field lines (no-store on a second line)", Run: func(c *Ctx) { ruleRLIST(c, "C06.13", "Cache-Control") }, MinSites: 1},
			{ID: "C06.14", Desc: "validators are written onto a copy of the caller's header (a polluted request makes a later unconditional GET come back 304)", Run: func(c *Ctx) { ruleC02_3(c); renameRule(c, "C02.3", "C06.14") }, MinSites: 1},
			{ID: "C06.15", Desc: "a body that fails while it is serialised leaves nothing in the store (no error of a call is overwritten unseen)", Run: func(c *Ctx) { ruleNoDeadErrorValues(c, "C06.15") }, MinSites: 1},
			{ID: "C06.16", Desc: "No-Store / Must-Understand in any letter case are recognised", Run: func(c *Ctx) { ruleC12_1(c); renameRule(c, "C12.1", "C06.16") }, MinSites: 1},
			{ID: "C06.17", Desc: "no-store is seen wherever it stands in the field (the collector visits every directive)", Run: func(c *Ctx) { ruleCollectorVisitsEveryPair(c, "C06.17") }, MinSites: 1},
			{ID: "C06.18", Desc: "the revalidation context's request directives are the parser's result for the request (no reduced copy)", Run: func(c *Ctx) { ruleContextCarriesParsedDirectives(c, "C06.18") }, MinSites: 2},
		},
	})
}

// assumeStatus builds an assumption that evaluates every status comparison and status table for the concrete code k,
// on top of the given key valuation.
func (c *Ctx) assumeStatus(k int64, extra map[string]bool) Assume {
	tables := map[string]*ssa.Function{}
	for _, role := range []string{"heurStatus", "understood", "sieStatus", "nonError"} {
		if f := c.A.F(role); f != nil {
			tables["pred:"+role] = f
		}
	}
	return func(a *Atom) (bool, bool) {
		if v, ok := extra[a.Key]; ok {
			return v, true
		}
		if strings.HasPrefix(a.Key, "cmp:status") {
			return constant.Compare(constant.MakeInt64(k), a.Op, constant.MakeInt64(a.K)), true
		}
		if fn, ok := tables[a.Key]; ok {
			res, err := c.An.EvalPred(fn, []constant.Value{constant.MakeInt64(k)}, 0)
			if err == nil && len(res) == 1 && res[0].Kind() == constant.Bool {
				return constant.BoolVal(res[0]), true
			}
		}
		return false, false
	}
}

// evaluatorMayAccept: under the assumption, can the storability evaluator return something other than the constant false?
func (c *Ctx) evaluatorMayAccept(as Assume) (bool, []string) {
	cs := c.A.F("canStore")
	pr := c.An.Prune(cs, as)
	may := false
	var rets []string
	pr.LiveInstrs(func(in ssa.Instruction) {
		r, ok := in.(*ssa.Return)
		if !ok || len(r.Results) != 1 {
			return
		}
		if b, known := c.An.BoolUnder(pr, as, r.Results[0], 0); known && !b {
			rets = append(rets, c.P.InstrPos(r)+" false")
			return
		}
		rets = append(rets, c.P.InstrPos(r)+" may-be-true")
		may = true
	})
	return may, rets
}

// storeSites: calls of the storing function with an origin response, with the function containing them.
func (c *Ctx) storeSites() []ssa.Instruction {
	var out []ssa.Instruction
	for fn := range c.A.Reach {
		instrsOf(fn, func(in ssa.Instruction) {
			if !c.An.CallsRole(in, "storeResp") {
				return
			}
			// only stores of an origin response: the write-back of a freshened stored response after a 304 (C08.1)
			// is not a storability decision
			_, args := recvAndArgs(callOf(in))
			for _, a := range args {
				if isHTTPResponsePtr(a.Type()) {
					k := c.An.ResponseKinds(a)
					if k["stored"] && !k["upstream"] {
						return
					}
				}
			}
			out = append(out, in)
		})
	}
	sort.Slice(out, func(i, j int) bool { return c.P.InstrPos(out[i]) < c.P.InstrPos(out[j]) })
	return out
}

// storeSiteLive: is the store call live in its function under the assumption, splitting on the origin error being nil
// or not (the two cases are exclusive; a site is live iff it is live in one of them)?
func (c *Ctx) storeSiteLive(site ssa.Instruction, as Assume) bool {
	fn := site.Parent()
	for _, errNil := range []bool{true, false} {
		a2 := func(a *Atom) (bool, bool) {
			if a.Key == "nil:err" {
				return errNil, true
			}
			if a.Key == "cmp:method==GET" {
				return true, true
			}
			return as(a)
		}
		pr := c.An.Prune(fn, a2)
		if pr.LiveBlock[site.Block().Index] {
			return true
		}
	}
	return false
}

func ruleC06_1(c *Ctx) {
	if !c.Need("C06.1", "canStore", "storeResp") {
		return
	}
	sites := c.storeSites()
	if len(sites) == 0 {
		c.Undecided("C06.1", "vacuity", "store sites exist", "no call of the storing function reachable from RoundTrip")
		return
	}
	cells := []struct {
		name  string
		codes []int64
	}{{"1xx", []int64{100, 101, 102, 103, 150, 199}}, {"206", []int64{206}}, {"304", []int64{304}}}
	for _, cell := range cells {
		for _, site := range sites {
			where := c.P.ShortName(site.Parent()) + "@" + c.P.InstrPos(site)
			key := fmt.Sprintf("status-cell=%s site-fn=%s", cell.name, c.P.ShortName(site.Parent()))
			desc := "an origin response with status " + cell.name + " never reaches the entry/index write"
			badCode := int64(-1)
			var detail string
			for _, k := range cell.codes {
				base := c.assumeStatus(k, nil)
				may, rets := c.evaluatorMayAccept(base)
				as := base
				if !may {
					as = c.assumeStatus(k, map[string]bool{"pred:canStore": false})
				}
				if c.storeSiteLive(site, as) {
					// the storing function itself may refuse: prune it with the status too
					sr := c.A.F("storeResp")
					prs := c.An.Prune(sr, c.assumeStatus(k, nil))
					writeLive := false
					prs.LiveInstrs(func(in ssa.Instruction) {
						if c.An.CallsRole(in, "writeEntry") || c.An.CallsRole(in, "writeIndex") {
							writeLive = true
						}
					})
					if writeLive {
						badCode = k
						detail = fmt.Sprintf("status %d: evaluator may accept=%v (%v); store call stays reachable and the storing function writes unconditionally", k, may, rets)
						break
					}
				}
			}
			if badCode >= 0 {
				w := ""
				if cell.name == "304" {
					w = " Witness: a miss with a client-supplied If-None-Match is answered 304 by the origin; the 304 is stored and later replayed to unconditional GETs"
				}
				c.Fail("C06.1", key, desc, where+": "+detail+"."+w, where)
			} else {
				c.Pass("C06.1", key, desc, where, fmt.Sprintf("codes %v", cell.codes))
			}
		}
	}
}

// canStoreRows: under the assumption built by mk (on the evaluator's own parameters), every live return is false.
func canStoreOnlyFalse(c *Ctx, rule, row, desc, witness string, as Assume) {
	may, rets := c.evaluatorMayAccept(as)
	if may {
		c.Fail(rule, row, desc, c.P.ShortName(c.A.F("canStore"))+": a return other than false is reachable: "+strings.Join(rets, ", ")+". Witness: "+witness, rets...)
		return
	}
	if len(rets) == 0 {
		c.Undecided(rule, row, desc, "no live return in the evaluator under the assumption")
		return
	}
	c.Pass(rule, row, desc, rets...)
}

// paramAtom: assumption on a directive accessor applied to parameter #idx of the evaluator.
func (c *Ctx) evalParamAssume(vals map[string]bool, extra Assume) Assume {
	cs := c.A.F("canStore")
	return func(a *Atom) (bool, bool) {
		// vals keys: "<paramIndex>:<directive>[.ok]"
		val := a.Val
		// an atom about a parameter of a helper of the evaluator is an atom about the evaluator's own parameter when every
		// call site of the helper passes that parameter on
		for hop := 0; hop < 3; hop++ {
			hp, ok := val.(*ssa.Parameter)
			if !ok || hp.Parent() == cs {
				break
			}
			idx := paramIndex(hp.Parent(), hp)
			var common ssa.Value
			same := idx >= 0
			for _, site := range c.P.Callers(hp.Parent()) {
				arg := argForParam(site.Instr.Common(), hp.Parent(), idx)
				if arg == nil {
					same = false
					break
				}
				arg = c.An.canon(arg)
				if common != nil && common != arg {
					same = false
				}
				common = arg
			}
			if !same || common == nil {
				break
			}
			val = common
		}
		for i, p := range cs.Params {
			if val == p {
				for _, cls := range []string{"rq.", "rs.", "up.", "mixed", "?"} {
					if strings.HasPrefix(a.Key, cls) {
						rest := a.Key[strings.Index(a.Key, ".")+1:]
						if strings.HasPrefix(a.Key, "mixed") {
							rest = a.Key[strings.Index(a.Key, ").")+2:]
						}
						if v, ok := vals[fmt.Sprintf("%d:%s", i, rest)]; ok {
							return v, true
						}
					}
				}
			}
		}
		if extra != nil {
			return extra(a)
		}
		return false, false
	}
}

func ruleC06_2(c *Ctx) {
	if !c.Need("C06.2", "canStore") {
		return
	}
	// parameter layout: (resp, reqCC, resCC)
	canStoreOnlyFalse(c, "C06.2", "row=response-no-store", "a response carrying no-store is never storable", "a `no-store` response is written to disk",
		c.evalParamAssume(map[string]bool{"2:no-store": true}, nil))
	canStoreOnlyFalse(c, "C06.2", "row=request-no-store", "a response to a request carrying no-store is never storable", "the answer to a `no-store` request is written to disk",
		c.evalParamAssume(map[string]bool{"1:no-store": true}, nil))
}

func ruleC06_3(c *Ctx) {
	if !c.Need("C06.3", "canStore", "understood") {
		return
	}
	und := c.A.F("understood")
	tc, cells, err := c.An.IntTable(und, 0, 999)
	if err != nil {
		c.Undecided("C06.3", "understood-table", "the understood-status table is extractable", err.Error())
		return
	}
	isUnd := map[int64]bool{}
	for _, k := range tc {
		isUnd[k] = true
	}
	var probes []int64
	for _, k := range append(cells, 200, 299, 302, 307, 418, 500, 599) {
		if !isUnd[k] && k >= 200 && k < 600 {
			probes = append(probes, k)
		}
	}
	bad := ""
	for _, k := range probes {
		as := c.evalParamAssume(map[string]bool{"2:must-understand": true}, c.assumeStatus(k, nil))
		if may, rets := c.evaluatorMayAccept(as); may {
			bad = fmt.Sprintf("status %d with must-understand: %v", k, rets)
			break
		}
	}
	desc := "a response with must-understand and a status outside the understood table is not storable"
	if bad != "" {
		c.Fail("C06.3", "must-understand", desc, bad)
	} else {
		c.Pass("C06.3", "must-understand", desc, fmt.Sprintf("understood=%v probes=%v", tc, probes))
	}
}

func ruleC06_4(c *Ctx) {
	if !c.Need("C06.4", "canStore", "heurStatus", "freshness") {
		return
	}
	ruleHeuristicStatuses(c, "C06.4")
	heur := c.A.F("heurStatus")
	tc, cells, err := c.An.IntTable(heur, 0, 999)
	if err != nil {
		c.Undecided("C06.4", "heuristic-table", "the heuristic status table is extractable", err.Error())
		return
	}
	isH := map[int64]bool{}
	for _, k := range tc {
		isH[k] = true
	}
	var probes []int64
	for _, k := range append(cells, 202, 302, 303, 307, 400, 403, 500, 503) {
		if !isH[k] && k >= 200 && k < 600 {
			probes = append(probes, k)
		}
	}
	bad := ""
	for _, k := range probes {
		base := c.assumeStatus(k, nil)
		as := c.evalParamAssume(map[string]bool{"2:public": false, "2:max-age": false, "2:max-age.ok": false, "2:must-understand": false}, func(a *Atom) (bool, bool) {
			if strings.HasPrefix(a.Key, "hdr.") && strings.HasSuffix(a.Key, ".Expires.present") {
				return false, true
			}
			return base(a)
		})
		if may, rets := c.evaluatorMayAccept(as); may {
			bad = fmt.Sprintf("status %d without public/Expires/max-age: %v", k, rets)
			break
		}
	}
	desc := "without explicit freshness information a status outside the heuristic table is not storable"
	if bad != "" {
		c.Fail("C06.4", "needs-freshness-info", desc, bad+". Witness: a 302 without freshness information is stored forever")
	} else {
		c.Pass("C06.4", "needs-freshness-info", desc, fmt.Sprintf("heuristic=%v probes=%v", tc, probes))
	}
	// agreement: the table consulted by the evaluator is the one consulted by the freshness function (C01.1)
	cs := c.A.F("canStore")
	ff := c.A.F("freshness")
	uses := func(fn *ssa.Function) bool {
		return c.P.StaticTree(fn)[heur] // directly or through a helper
	}
	if uses(cs) && uses(ff) {
		c.Pass("C06.4", "heuristic-table-agreement", "storability and heuristic lifetime consult the same status table", c.P.ShortName(heur))
	} else {
		c.Fail("C06.4", "heuristic-table-agreement", "storability and heuristic lifetime consult the same status table",
			fmt.Sprintf("evaluator uses it: %v, freshness uses it: %v; a status storable without freshness info but never fresh (or vice versa)", uses(cs), uses(ff)))
	}
	// 206 and 304 are never heuristically fresh AND stored; exclusion is checked at the store site by C06.1
}

// ruleGate (C03.3 / C06.5): the method/Range gate.
func ruleGate(c *Ctx, rule string) {
	if !c.Need(rule, "gate") {
		return
	}
	gate := c.A.F("gate")
	onlyFalse := func(as Assume) (bool, int) {
		pr := c.An.Prune(gate, as)
		ok := true
		n := 0
		pr.LiveInstrs(func(in ssa.Instruction) {
			r, isR := in.(*ssa.Return)
			if !isR || len(r.Results) != 1 {
				return
			}
			n++
			if b, known := c.An.BoolUnder(pr, as, r.Results[0], 0); known && !b {
				return
			}
			ok = false
		})
		return ok, n
	}
	if ok, n := onlyFalse(func(a *Atom) (bool, bool) {
		if strings.HasPrefix(a.Key, "cmp:method==") && a.S == "GET" {
			return false, true // method is not GET; a comparison with any other token (or the empty method) stays open
		}
		return false, false
	}); !ok || n == 0 {
		c.Fail(rule, "gate-method", "the gate is false for every method other than GET", c.P.ShortName(gate)+": can return true when method != GET (it compares with another method token, or with the empty method, which the 304 branch of the validation handler does not treat as GET: the origin's 304 is then stored and replayed to unconditional requests)")
	} else {
		c.Pass(rule, "gate-method", "the gate is false for every method other than GET", c.P.ShortName(gate))
	}
	// the only method constant the gate compares with is GET
	for s := range stringConstsIn(gate) {
		if s != "GET" && s != "Range" && s != "" && strings.ToUpper(s) == s && len(s) > 2 {
			c.Fail(rule, "gate-method-const", "the gate admits only GET", c.P.ShortName(gate)+": compares with method "+s)
		}
	}
	if ok, n := onlyFalse(func(a *Atom) (bool, bool) {
		if strings.HasPrefix(a.Key, "hdr.") && strings.HasSuffix(a.Key, ".Range.present") {
			return true, true
		}
		return false, false
	}); !ok || n == 0 {
		c.Fail(rule, "gate-range", "the gate is false for a request carrying Range", c.P.ShortName(gate)+": can return true although the request carries a Range field. Witness: a Range request is answered with the full stored body")
	} else {
		c.Pass(rule, "gate-range", "the gate is false for a request carrying Range", c.P.ShortName(gate))
	}
	// in RoundTrip: under gate=F no entry read, no store write, no serve
	isStoreAccess := func(in ssa.Instruction) bool {
		return c.An.CallsRole(in, "readEntry") || c.An.CallsRole(in, "writeEntry") || c.An.CallsRole(in, "writeIndex") || c.An.IsServeReturn(in)
	}
	c.ForbidOb(rule, "row=gate-closed", map[string]bool{"pred:gate": false}, "STORE-ACCESS", isStoreAccess, true,
		"a POST or Range request reads an entry from, or writes its answer to, the store")
}

func ruleC06_6(c *Ctx) {
	if !c.Need("C06.6", "canStore", "storeResp") {
		return
	}
	sites := c.storeSites()
	for _, site := range sites {
		fn := site.Parent()
		where := c.P.ShortName(fn) + "@" + c.P.InstrPos(site)
		pr := c.An.Prune(fn, AssumeKeys(map[string]bool{"pred:canStore": false}))
		desc := "the store call is unreachable when the storability evaluator says no"
		if !pr.Used["pred:canStore"] {
			c.Fail("C06.6", "evaluator-dominates fn="+c.P.ShortName(fn), desc, where+": the function never consults the evaluator", where)
			continue
		}
		if pr.LiveBlock[site.Block().Index] {
			c.Fail("C06.6", "evaluator-dominates fn="+c.P.ShortName(fn), desc, where+": reachable under {canStore=F}", where)
		} else {
			c.Pass("C06.6", "evaluator-dominates fn="+c.P.ShortName(fn), desc, where)
		}
		// the evaluator is given the response that is stored and the exchange's request directives
		_, args := recvAndArgs(callOf(site))
		var stored ssa.Value
		for _, a := range args {
			if isHTTPResponsePtr(a.Type()) {
				stored = a
			}
		}
		okArg := false
		instrsOf(fn, func(in ssa.Instruction) {
			if call := callOf(in); call != nil && c.An.CallsRole(in, "canStore") {
				_, eargs := recvAndArgs(call)
				for _, ea := range eargs {
					if isHTTPResponsePtr(ea.Type()) && c.An.sameCanon(ea, stored) {
						okArg = true
					}
				}
			}
		})
		if okArg {
			c.Pass("C06.6", "evaluator-same-response fn="+c.P.ShortName(fn), "the evaluator judges the response that is stored", where)
		} else {
			c.Fail("C06.6", "evaluator-same-response fn="+c.P.ShortName(fn), "the evaluator judges the response that is stored", where+": evaluator and store call receive different responses")
		}
	}
	if len(sites) == 0 {
		c.Undecided("C06.6", "vacuity", "store sites exist", "none")
	}
}

func ruleC06_7(c *Ctx) {
	if !c.Need("C06.7", "storeResp", "writeEntry", "writeIndex") {
		return
	}
	sr := c.A.F("storeResp")
	var we ssa.Instruction
	var wi ssa.Instruction
	instrsOf(sr, func(in ssa.Instruction) {
		if c.An.CallsRole(in, "writeEntry") {
			we = in
		}
		if c.An.CallsRole(in, "writeIndex") {
			wi = in
		}
	})
	desc := "the index is not written when the entry write failed"
	if we == nil || wi == nil {
		c.Undecided("C06.7", "entry-write-error", desc, "entry or index write not found in "+c.P.ShortName(sr))
		return
	}
	where := c.P.ShortName(sr) + "@" + c.P.InstrPos(we)
	v, ok := we.(ssa.Value)
	used := false
	if ok {
		if refs := v.Referrers(); refs != nil {
			for _, r := range *refs {
				if _, dbg := r.(*ssa.DebugRef); !dbg {
					used = true
				}
			}
		}
	}
	if !used {
		c.Fail("C06.7", "entry-write-error", desc, where+": the error of the entry write is discarded and the index write at "+c.P.InstrPos(wi)+
			" follows unconditionally. Witness: the body read fails mid-stream while serialising => the index now references an entry that was never written (or an older body)", where)
		return
	}
	pr := c.An.Prune(sr, func(a *Atom) (bool, bool) {
		if a.Key == "nil:err" && c.An.sameCanon(a.Val, v) {
			return false, true
		}
		return false, false
	})
	if pr.LiveBlock[wi.Block().Index] {
		c.Fail("C06.7", "entry-write-error", desc, where+": index write at "+c.P.InstrPos(wi)+" reachable with the entry-write error set", where)
	} else {
		c.Pass("C06.7", "entry-write-error", desc, where)
	}
}

// ruleC06_10: the storability evaluator guards every store of an origin response (C06.2, C06.6); the write-back of the
// freshened stored response after a 304 is not an origin response and is not judged by it. Under a request no-store, and
// under a 304 that itself carries no-store, that write-back must be unreachable in the validation handler.
func ruleC06_10(c *Ctx) {
	if !c.Need("C06.10", "validationHandler", "storeResp") {
		return
	}
	vh := c.A.F("validationHandler")
	isWriteBack := func(in ssa.Instruction) bool {
		if !c.An.CallsRole(in, "storeResp") {
			return false
		}
		_, args := recvAndArgs(callOf(in))
		for _, a := range args {
			if isHTTPResponsePtr(a.Type()) {
				k := c.An.ResponseKinds(a)
				return k["stored"] && !k["upstream"]
			}
		}
		return false
	}
	n := 0
	instrsOf(vh, func(in ssa.Instruction) {
		if isWriteBack(in) {
			n++
		}
	})
	if n == 0 {
		c.Pass("C06.10", "no-store-write-back", "no write-back of the stored response in the validation handler", c.P.ShortName(vh))
		return
	}
	for _, row := range []struct{ name, atom, witness string }{
		{"request", "rq.no-store", "a validation forced by a request carrying no-store, answered 304 with a new field: the field is written to the store and served to later requests"},
		{"response-304", "up.no-store", "a 304 carrying `Cache-Control: no-store` is merged into the entry and written back; the entry (now saying no-store itself) keeps being served"},
	} {
		as := func(a *Atom) (bool, bool) {
			if a.Key == row.atom {
				return true, true
			}
			if strings.HasPrefix(a.Key, "nil:field:") && c.An.collaboratorNonNil(a.Key) {
				return false, true
			}
			return false, false
		}
		pr := c.An.Prune(vh, as)
		live := ""
		pr.LiveInstrs(func(in ssa.Instruction) {
			if isWriteBack(in) {
				live = c.P.InstrPos(in)
			}
		})
		desc := "under " + row.atom + " the freshened response is not written to the store"
		switch {
		case !pr.Used[row.atom]:
			c.Fail("C06.10", "no-store-write-back row="+row.name, desc, c.P.ShortName(vh)+": the handler never looks at "+row.atom+". Witness: "+row.witness)
		case live != "":
			c.Fail("C06.10", "no-store-write-back row="+row.name, desc, live+": the write-back stays reachable under "+row.atom+"=T. Witness: "+row.witness)
		default:
			c.Pass("C06.10", "no-store-write-back row="+row.name, desc, c.P.ShortName(vh))
		}
	}
}
